//! `c20gen <verif_seed> <engine_tag> <first_index> <count> <full|light|tiny|cover>`
//! prints one line per scenario: `<index> <run_seed> <encoded scenario>`.
//! `c20gen describe <encoded scenario>` prints the JSON description.
use c20common::*;

fn main() {
    let a: Vec<String> = std::env::args().collect();
    if a.len() >= 3 && a[1] == "describe" {
        match decode(&a[2]) {
            Ok(sc) => println!("{}", describe_json(&sc)),
            Err(e) => { eprintln!("HARNESS-ERROR: {}", e); std::process::exit(2); }
        }
        return;
    }
    if a.len() != 6 {
        eprintln!("usage: c20gen <verif_seed> <engine_tag> <first_index> <count> <full|light|tiny|cover>");
        std::process::exit(2);
    }
    let vs: u64 = a[1].parse().expect("verif_seed");
    let eng: u64 = a[2].parse().expect("engine_tag");
    let first: u64 = a[3].parse().expect("first_index");
    let count: u64 = a[4].parse().expect("count");
    let prof = match a[5].as_str() { "full" => Profile::Full, "light" => Profile::Light, "tiny" => Profile::Tiny, "cover" => Profile::Cover, "crash" => Profile::Crash, "ranges" => Profile::Ranges, "pairs" => Profile::Pairs, "xmatch" => Profile::Xmatch, "long" => Profile::Long, "crowd" => Profile::Crowd, "twins" => Profile::Twins, _ => { eprintln!("bad profile"); std::process::exit(2) } };
    for i in first..first + count {
        let s = derive_seed(vs, eng, i);
        println!("{} {} {}", i, s, encode(&generate_indexed(s, i, prof)));
    }
}
