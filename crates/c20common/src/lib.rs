//! Scenario model, PRNG, generator and text codec shared by both C20 engines.
//!
//! This crate deliberately does NOT depend on `cdshealpix`: it only describes *what* the
//! simulated caller threads do.  The code that executes an [`Op`] against the real library
//! lives in `crates/shared/ops.rs` and is compiled into each engine against that engine's
//! build of `cdshealpix` (guard off for engine A, guard on for engine B).
//!
//! Determinism rules: everything here is a pure function of its arguments; no clock, no
//! environment, no hash-map iteration.

use std::fmt::Write as _;

// ------------------------------------------------------------------------------------------
// PRNG (splitmix64): one integer decides everything.
// ------------------------------------------------------------------------------------------

#[derive(Clone, Debug)]
pub struct Rng(pub u64);

pub fn splitmix64(mut z: u64) -> u64 {
    z = z.wrapping_add(0x9E37_79B9_7F4A_7C15);
    z = (z ^ (z >> 30)).wrapping_mul(0xBF58_476D_1CE4_E5B9);
    z = (z ^ (z >> 27)).wrapping_mul(0x94D0_49BB_1331_11EB);
    z ^ (z >> 31)
}

/// Seed of run `index` of engine `engine` under the master seed `verif_seed`.
pub fn derive_seed(verif_seed: u64, engine: u64, index: u64) -> u64 {
    splitmix64(splitmix64(verif_seed ^ 0xC20C_20C2_0C20_C20C) ^ splitmix64(engine.wrapping_mul(0x1000_0000_01B3)) ^ splitmix64(index.wrapping_add(0x5151)))
}

impl Rng {
    pub fn new(seed: u64) -> Rng {
        Rng(seed)
    }
    pub fn next_u64(&mut self) -> u64 {
        self.0 = self.0.wrapping_add(0x9E37_79B9_7F4A_7C15);
        let mut z = self.0;
        z = (z ^ (z >> 30)).wrapping_mul(0xBF58_476D_1CE4_E5B9);
        z = (z ^ (z >> 27)).wrapping_mul(0x94D0_49BB_1331_11EB);
        z ^ (z >> 31)
    }
    /// Uniform in `0..n` (n > 0). Modulo bias is irrelevant here.
    pub fn below(&mut self, n: u64) -> u64 {
        debug_assert!(n > 0);
        self.next_u64() % n
    }
    pub fn range(&mut self, lo: u64, hi_incl: u64) -> u64 {
        lo + self.below(hi_incl - lo + 1)
    }
    pub fn chance(&mut self, num: u64, den: u64) -> bool {
        self.below(den) < num
    }
    /// Uniform in [0, 1).
    pub fn unit(&mut self) -> f64 {
        (self.next_u64() >> 11) as f64 * (1.0 / 9_007_199_254_740_992.0)
    }
    pub fn uniform(&mut self, lo: f64, hi: f64) -> f64 {
        lo + (hi - lo) * self.unit()
    }
}

// ------------------------------------------------------------------------------------------
// Scenario model
// ------------------------------------------------------------------------------------------

pub const N_DEPTHS: usize = 30;
pub const MAX_THREADS: usize = 10;

#[derive(Clone, Debug, PartialEq)]
pub enum Op {
    /// `nested::get_or_create(d)`: pointer, `depth()`, `n_hash()`.
    L { d: u8 },
    /// `nested::hash(d, lon, lat)` (C01/C02 slice).
    H { d: u8, lon: f64, lat: f64 },
    /// `center` + `vertices` + `hash_with_dxdy(center)` (C03 slice).
    G { d: u8, h: u64 },
    /// `neighbours(d, h, true)` (C04 slice).
    N { d: u8, h: u64 },
    /// `cone_coverage_approx` -> full entry list (C05/C06/C09 slice; both tables, several depths).
    K { d: u8, lon: f64, lat: f64, r: f64 },
    /// `cone_coverage_approx_custom` (first-touches depth d+dd).
    Kc { d: u8, dd: u8, lon: f64, lat: f64, r: f64 },
    /// `elliptical_cone_coverage` (C13 slice; both tables).
    E { d: u8, lon: f64, lat: f64, a: f64, b: f64, pa: f64 },
    /// `elliptical_cone_coverage_custom` (first-touches depth d+dd).
    Ec { d: u8, dd: u8, lon: f64, lat: f64, a: f64, b: f64, pa: f64 },
    /// `polygon_coverage` (C12 slice).
    P { d: u8, verts: Vec<(f64, f64)>, exact: bool },
    /// `external_edge_sorted` (C14 slice).
    X { d: u8, h: u64, dd: u8 },
    /// `bilinear_interpolation` (C19 slice).
    B { d: u8, lon: f64, lat: f64 },
    /// `from_ring(to_ring(h))` (C10 slice).
    R { d: u8, h: u64 },
    /// `largest_center_to_vertex_distance(_with_radius)` (C16 slice; second table only).
    V { d: u8, lon: f64, lat: f64, r: Option<f64> },
    /// `largest_center_to_vertex_distances_with_radius(from, to, ..)`: first-touches the constants
    /// of every depth in `from.max(1)..to` (second table only).
    W { from: u8, to: u8, lon: f64, lat: f64, r: f64 },
    /// `n` successive `largest_center_to_vertex_distance(d, ..)` calls at slightly different
    /// positions (a long history of look-ups of the second table by one thread).
    Vx { d: u8, n: u16, lon: f64, lat: f64 },
    /// `n` successive `nested::hash(d, ..)` calls (a long history of look-ups of the first table).
    Hx { d: u8, n: u16, lon: f64, lat: f64 },
    /// crashing caller: `nested::hash(d, lon, 2.0)` -> must panic on the latitude check.
    Zh { d: u8, lon: f64 },
    /// crashing caller: `nested::center(d, n_hash(d))` -> must panic on the hash check.
    Zc { d: u8 },
    /// crashing caller: `nested::hash(30, lon, 0.5)` -> depth > 29 must panic (index check).
    Zd { lon: f64 },
}

impl Op {
    /// Depth explicitly requested by the op (the one whose layer / constants MUST exist after it).
    pub fn depth(&self) -> u8 {
        match self {
            Op::Vx { d, .. } | Op::Hx { d, .. } => *d,
            Op::L { d } | Op::H { d, .. } | Op::G { d, .. } | Op::N { d, .. } | Op::K { d, .. }
            | Op::E { d, .. } | Op::P { d, .. } | Op::X { d, .. } | Op::B { d, .. } | Op::R { d, .. }
            | Op::V { d, .. } | Op::Zh { d, .. } | Op::Zc { d } => *d,
            Op::Kc { d, dd, .. } | Op::Ec { d, dd, .. } => *d + *dd,
            // the invalid depth itself is 30; no valid slot is requested
            Op::Zd { .. } => 0,
            // deepest depth of the half-open range
            Op::W { to, .. } => to.saturating_sub(1),
        }
    }
    pub fn is_crash(&self) -> bool {
        matches!(self, Op::Zh { .. } | Op::Zc { .. } | Op::Zd { .. })
    }
    /// Which lazily initialised tables the op is guaranteed to first-touch at `depth()`:
    /// bit 0 = LAYERS, bit 1 = CSTS_C2V.
    pub fn tables(&self) -> u8 {
        match self {
            Op::V { .. } | Op::W { .. } | Op::Vx { .. } => 2,
            Op::K { .. } | Op::Kc { .. } | Op::E { .. } | Op::Ec { .. } => 3,
            _ => 1,
        }
    }
    pub fn kind(&self) -> &'static str {
        match self {
            Op::L { .. } => "L", Op::H { .. } => "H", Op::G { .. } => "G", Op::N { .. } => "N",
            Op::K { .. } => "K", Op::Kc { .. } => "Kc", Op::E { .. } => "E", Op::P { .. } => "P",
            Op::X { .. } => "X", Op::B { .. } => "B", Op::R { .. } => "R", Op::V { .. } => "V",
            Op::Zh { .. } => "Zh", Op::Zc { .. } => "Zc", Op::Zd { .. } => "Zd", Op::Ec { .. } => "Ec", Op::W { .. } => "W", Op::Vx { .. } => "Vx", Op::Hx { .. } => "Hx",
        }
    }
}

pub const OP_KINDS: [&str; 19] = ["L", "H", "G", "N", "K", "Kc", "E", "P", "X", "B", "R", "V", "Zh", "Zc", "Zd", "Ec", "W", "Vx", "Hx"];
/// Kinds the swarm generator draws ordinary (non-crashing) ops from.
pub const ORDINARY_KINDS: [usize; 14] = [0, 1, 2, 3, 4, 5, 6, 7, 8, 9, 10, 11, 15, 16];

#[derive(Clone, Copy, Debug, PartialEq, Eq)]
pub enum Start {
    /// Released together with the other `Line` threads (racing first users).
    Line,
    /// Held back until every `Line` thread has finished, *without* any synchronisation edge.
    Late,
}

#[derive(Clone, Debug, PartialEq)]
pub struct ThreadSpec {
    pub start: Start,
    pub ops: Vec<Op>,
}

/// Scheduler-level fault (engine B only; engine A gets its pre-emptions from Miri's PRNG).
#[derive(Clone, Debug, PartialEq, Eq)]
pub enum Fault {
    /// Right after thread `thread` performed its `at_event`-th seam event (1-based), withhold
    /// it from the runnable set for `steps` scheduling decisions (unless nothing else can run).
    Stall { thread: u8, at_event: u32, steps: u32 },
}

#[derive(Clone, Debug, PartialEq)]
pub struct Scenario {
    pub threads: Vec<ThreadSpec>,
    pub faults: Vec<Fault>,
}

impl Scenario {
    pub fn n_ops(&self) -> usize {
        self.threads.iter().map(|t| t.ops.len()).sum()
    }
    pub fn n_late(&self) -> usize {
        self.threads.iter().filter(|t| t.start == Start::Late).count()
    }
    pub fn n_crash_ops(&self) -> usize {
        self.threads.iter().flat_map(|t| t.ops.iter()).filter(|o| o.is_crash()).count()
    }
}

// ------------------------------------------------------------------------------------------
// Text codec.  Floats are written as the hex of their bit pattern so a replay is bit-exact.
//   scenario := thread ("/" thread)* ["|" fault ("," fault)*]
//   thread   := ("line"|"late") ":" op (";" op)*
//   op       := KIND "," field ("," field)*
// ------------------------------------------------------------------------------------------

fn f(v: f64) -> String {
    format!("x{:016x}", v.to_bits())
}

fn pf(s: &str) -> Result<f64, String> {
    if let Some(h) = s.strip_prefix('x') {
        u64::from_str_radix(h, 16).map(f64::from_bits).map_err(|e| format!("bad float bits '{}': {}", s, e))
    } else {
        s.parse::<f64>().map_err(|e| format!("bad float '{}': {}", s, e))
    }
}

fn pu<T: std::str::FromStr>(s: &str) -> Result<T, String>
where
    T::Err: std::fmt::Display,
{
    s.parse::<T>().map_err(|e| format!("bad integer '{}': {}", s, e))
}

pub fn encode_op(op: &Op) -> String {
    match op {
        Op::L { d } => format!("L,{}", d),
        Op::H { d, lon, lat } => format!("H,{},{},{}", d, f(*lon), f(*lat)),
        Op::G { d, h } => format!("G,{},{}", d, h),
        Op::N { d, h } => format!("N,{},{}", d, h),
        Op::K { d, lon, lat, r } => format!("K,{},{},{},{}", d, f(*lon), f(*lat), f(*r)),
        Op::Kc { d, dd, lon, lat, r } => format!("Kc,{},{},{},{},{}", d, dd, f(*lon), f(*lat), f(*r)),
        Op::E { d, lon, lat, a, b, pa } => format!("E,{},{},{},{},{},{}", d, f(*lon), f(*lat), f(*a), f(*b), f(*pa)),
        Op::P { d, verts, exact } => {
            let mut s = format!("P,{},{}", d, if *exact { 1 } else { 0 });
            for (lo, la) in verts {
                let _ = write!(s, ",{},{}", f(*lo), f(*la));
            }
            s
        }
        Op::X { d, h, dd } => format!("X,{},{},{}", d, h, dd),
        Op::B { d, lon, lat } => format!("B,{},{},{}", d, f(*lon), f(*lat)),
        Op::R { d, h } => format!("R,{},{}", d, h),
        Op::V { d, lon, lat, r } => match r {
            Some(r) => format!("V,{},{},{},{}", d, f(*lon), f(*lat), f(*r)),
            None => format!("V,{},{},{}", d, f(*lon), f(*lat)),
        },
        Op::Zh { d, lon } => format!("Zh,{},{}", d, f(*lon)),
        Op::Zc { d } => format!("Zc,{}", d),
        Op::Zd { lon } => format!("Zd,{}", f(*lon)),
        Op::Ec { d, dd, lon, lat, a, b, pa } => format!("Ec,{},{},{},{},{},{},{}", d, dd, f(*lon), f(*lat), f(*a), f(*b), f(*pa)),
        Op::W { from, to, lon, lat, r } => format!("W,{},{},{},{},{}", from, to, f(*lon), f(*lat), f(*r)),
        Op::Vx { d, n, lon, lat } => format!("Vx,{},{},{},{}", d, n, f(*lon), f(*lat)),
        Op::Hx { d, n, lon, lat } => format!("Hx,{},{},{},{}", d, n, f(*lon), f(*lat)),
    }
}

pub fn decode_op(s: &str) -> Result<Op, String> {
    let p: Vec<&str> = s.split(',').collect();
    let need = |n: usize| if p.len() == n { Ok(()) } else { Err(format!("op '{}': expected {} fields, got {}", s, n, p.len())) };
    let op = match p[0] {
        "L" => { need(2)?; Op::L { d: pu(p[1])? } }
        "H" => { need(4)?; Op::H { d: pu(p[1])?, lon: pf(p[2])?, lat: pf(p[3])? } }
        "G" => { need(3)?; Op::G { d: pu(p[1])?, h: pu(p[2])? } }
        "N" => { need(3)?; Op::N { d: pu(p[1])?, h: pu(p[2])? } }
        "K" => { need(5)?; Op::K { d: pu(p[1])?, lon: pf(p[2])?, lat: pf(p[3])?, r: pf(p[4])? } }
        "Kc" => { need(6)?; Op::Kc { d: pu(p[1])?, dd: pu(p[2])?, lon: pf(p[3])?, lat: pf(p[4])?, r: pf(p[5])? } }
        "E" => { need(7)?; Op::E { d: pu(p[1])?, lon: pf(p[2])?, lat: pf(p[3])?, a: pf(p[4])?, b: pf(p[5])?, pa: pf(p[6])? } }
        "P" => {
            if p.len() < 9 || (p.len() - 3) % 2 != 0 { return Err(format!("op '{}': bad polygon", s)); }
            let mut verts = Vec::new();
            let mut i = 3;
            while i < p.len() { verts.push((pf(p[i])?, pf(p[i + 1])?)); i += 2; }
            Op::P { d: pu(p[1])?, exact: p[2] == "1", verts }
        }
        "X" => { need(4)?; Op::X { d: pu(p[1])?, h: pu(p[2])?, dd: pu(p[3])? } }
        "B" => { need(4)?; Op::B { d: pu(p[1])?, lon: pf(p[2])?, lat: pf(p[3])? } }
        "R" => { need(3)?; Op::R { d: pu(p[1])?, h: pu(p[2])? } }
        "V" => {
            if p.len() == 4 { Op::V { d: pu(p[1])?, lon: pf(p[2])?, lat: pf(p[3])?, r: None } }
            else { need(5)?; Op::V { d: pu(p[1])?, lon: pf(p[2])?, lat: pf(p[3])?, r: Some(pf(p[4])?) } }
        }
        "Zh" => { need(3)?; Op::Zh { d: pu(p[1])?, lon: pf(p[2])? } }
        "Zc" => { need(2)?; Op::Zc { d: pu(p[1])? } }
        "Zd" => { need(2)?; Op::Zd { lon: pf(p[1])? } }
        "Ec" => { need(8)?; Op::Ec { d: pu(p[1])?, dd: pu(p[2])?, lon: pf(p[3])?, lat: pf(p[4])?, a: pf(p[5])?, b: pf(p[6])?, pa: pf(p[7])? } }
        "W" => {
            need(6)?;
            let (from, to): (u8, u8) = (pu(p[1])?, pu(p[2])?);
            if !(from < to && to <= 30) { return Err(format!("op '{}': bad depth range", s)); }
            Op::W { from, to, lon: pf(p[3])?, lat: pf(p[4])?, r: pf(p[5])? }
        }
        "Vx" => { need(5)?; Op::Vx { d: pu(p[1])?, n: pu(p[2])?, lon: pf(p[3])?, lat: pf(p[4])? } }
        "Hx" => { need(5)?; Op::Hx { d: pu(p[1])?, n: pu(p[2])?, lon: pf(p[3])?, lat: pf(p[4])? } }
        k => return Err(format!("unknown op kind '{}'", k)),
    };
    if op.depth() > 29 { return Err(format!("op '{}': depth > 29", s)); }
    Ok(op)
}

pub fn encode(sc: &Scenario) -> String {
    let mut s = String::new();
    for (i, t) in sc.threads.iter().enumerate() {
        if i > 0 { s.push('/'); }
        s.push_str(match t.start { Start::Line => "line:", Start::Late => "late:" });
        for (j, op) in t.ops.iter().enumerate() {
            if j > 0 { s.push(';'); }
            s.push_str(&encode_op(op));
        }
    }
    if !sc.faults.is_empty() {
        s.push('|');
        for (i, fl) in sc.faults.iter().enumerate() {
            if i > 0 { s.push(','); }
            match fl {
                Fault::Stall { thread, at_event, steps } => { let _ = write!(s, "stall:{}:{}:{}", thread, at_event, steps); }
            }
        }
    }
    s
}

pub fn decode(s: &str) -> Result<Scenario, String> {
    let (ts, fs) = match s.find('|') { Some(i) => (&s[..i], Some(&s[i + 1..])), None => (s, None) };
    let mut threads = Vec::new();
    for t in ts.split('/') {
        let (st, ops) = t.split_once(':').ok_or_else(|| format!("thread '{}': missing ':'", t))?;
        let start = match st { "line" => Start::Line, "late" => Start::Late, o => return Err(format!("bad start '{}'", o)) };
        let mut v = Vec::new();
        for o in ops.split(';') {
            if o.is_empty() { continue; }
            v.push(decode_op(o)?);
        }
        threads.push(ThreadSpec { start, ops: v });
    }
    if threads.is_empty() || threads.len() > MAX_THREADS { return Err("need 1..=10 threads".into()); }
    let mut faults = Vec::new();
    if let Some(fs) = fs {
        for fl in fs.split(',') {
            if fl.is_empty() { continue; }
            let p: Vec<&str> = fl.split(':').collect();
            match p[0] {
                "stall" if p.len() == 4 => faults.push(Fault::Stall { thread: pu(p[1])?, at_event: pu(p[2])?, steps: pu(p[3])? }),
                _ => return Err(format!("bad fault '{}'", fl)),
            }
        }
    }
    Ok(Scenario { threads, faults })
}

/// Human-readable JSON rendering of a scenario (for evidence samples / replay files).
pub fn describe_json(sc: &Scenario) -> String {
    let mut s = String::from("{\"threads\":[");
    for (i, t) in sc.threads.iter().enumerate() {
        if i > 0 { s.push(','); }
        let _ = write!(s, "{{\"start\":\"{}\",\"ops\":[", match t.start { Start::Line => "line", Start::Late => "late" });
        for (j, op) in t.ops.iter().enumerate() {
            if j > 0 { s.push(','); }
            let _ = write!(s, "\"{}\"", describe_op(op));
        }
        s.push_str("]}");
    }
    s.push_str("],\"faults\":[");
    for (i, fl) in sc.faults.iter().enumerate() {
        if i > 0 { s.push(','); }
        match fl {
            Fault::Stall { thread, at_event, steps } => { let _ = write!(s, "\"stall(thread={},after_seam_event={},steps={})\"", thread, at_event, steps); }
        }
    }
    s.push_str("]}");
    s
}

pub fn describe_op(op: &Op) -> String {
    match op {
        Op::L { d } => format!("get_or_create({})", d),
        Op::H { d, lon, lat } => format!("hash({},{:.6},{:.6})", d, lon, lat),
        Op::G { d, h } => format!("center+vertices+hash_with_dxdy({},{})", d, h),
        Op::N { d, h } => format!("neighbours({},{})", d, h),
        Op::K { d, lon, lat, r } => format!("cone_coverage_approx({},{:.6},{:.6},{:.3e})", d, lon, lat, r),
        Op::Kc { d, dd, lon, lat, r } => format!("cone_coverage_approx_custom({},{},{:.6},{:.6},{:.3e})", d, dd, lon, lat, r),
        Op::E { d, lon, lat, a, b, pa } => format!("elliptical_cone_coverage({},{:.6},{:.6},{:.3e},{:.3e},{:.4})", d, lon, lat, a, b, pa),
        Op::P { d, verts, exact } => format!("polygon_coverage({},{} vertices,exact={})", d, verts.len(), exact),
        Op::X { d, h, dd } => format!("external_edge_sorted({},{},{})", d, h, dd),
        Op::B { d, lon, lat } => format!("bilinear_interpolation({},{:.6},{:.6})", d, lon, lat),
        Op::R { d, h } => format!("from_ring(to_ring({},{}))", d, h),
        Op::V { d, lon, lat, r } => match r {
            Some(r) => format!("largest_center_to_vertex_distance_with_radius({},{:.6},{:.6},{:.3e})", d, lon, lat, r),
            None => format!("largest_center_to_vertex_distance({},{:.6},{:.6})", d, lon, lat),
        },
        Op::Zh { d, lon } => format!("CRASH hash({},{:.6},lat=2.0)", d, lon),
        Op::Zc { d } => format!("CRASH center({},n_hash)", d),
        Op::Zd { lon } => format!("CRASH hash(depth=30,{:.6},0.5)", lon),
        Op::Ec { d, dd, lon, lat, a, b, pa } => format!("elliptical_cone_coverage_custom({},{},{:.6},{:.6},{:.3e},{:.3e},{:.4})", d, dd, lon, lat, a, b, pa),
        Op::W { from, to, lon, lat, r } => format!("largest_center_to_vertex_distances_with_radius({}..{},{:.6},{:.6},{:.3e})", from, to, lon, lat, r),
        Op::Vx { d, n, lon, lat } => format!("{} x largest_center_to_vertex_distance({},{:.6}+i*1e-3,{:.6})", n, d, lon, lat),
        Op::Hx { d, n, lon, lat } => format!("{} x hash({},{:.6}+i*1e-3,{:.6})", n, d, lon, lat),
    }
}

// ------------------------------------------------------------------------------------------
// Generator (swarm style): one PRNG decides thread count, depth pool, op mix, faults.
// ------------------------------------------------------------------------------------------

#[derive(Clone, Copy, Debug, PartialEq, Eq)]
pub enum Profile {
    /// Engine B, quick/thorough: full menu, up to 6 threads x 4 ops.
    Full,
    /// Engine A (Miri is ~1000x slower): 2..=4 threads, 1..=2 ops, light geometry.
    Light,
    /// Smallest scenarios: 2..=3 threads x one `L`/`V` op (saturates the seam interleavings).
    Tiny,
    /// Coverage queries spanning >= 3 depths (cone radius of 3..12 cells) racing with each other
    /// and with first users of the intermediate depths; half of the other threads arrive late.
    Cover,
    /// Crashing callers in the middle of contention: every scenario has at least one call that
    /// panics by design (latitude 2.0, hash == n_hash, depth 30) placed next to 2..=4 threads that
    /// first-use the same depth(s) with light ops; some threads arrive late.
    Crash,
    /// Three or four threads first-using DIFFERENT, mostly disjoint depth ranges of the second
    /// table (`largest_center_to_vertex_distances_with_radius` directly, or narrow cone queries at
    /// well separated depths), some arriving late.
    Ranges,
    /// Systematic sweep over depth PAIRS: scenario number `i` first-uses the `i mod 465`-th
    /// unordered pair (d1 <= d2) of depths from 2..=6 threads with light ops on both tables, in
    /// both orders.  Catches defects that need one specific pair of depths.
    Pairs,
    /// Cross-match style workload: 2..=4 threads at ONE depth issue 2..=4 coverage queries each,
    /// all drawing their radius from the same two values and their delta_depth from the same two
    /// values (different positions): repeated identical parameters next to different ones, which
    /// is what per-layer / per-process memos keyed by radius or delta_depth need to go wrong.
    Xmatch,
    /// Long histories: one thread performs several hundred look-ups of one depth (more than 256,
    /// more than 512) and then uses a second depth that another thread first-uses meanwhile.
    /// Catches defects that only appear when a counter wraps / a periodic refresh happens.
    Long,
    /// Crowds: 7..=10 threads, nearly all released together, each doing ONE light first-use op
    /// on one depth (sometimes two depths, sometimes one op more): many simultaneous waiters on
    /// one initialiser.  Catches defects that need several waiters or several losers at once
    /// (a wake-up delivered to one waiter only, a per-waiter slot table that overflows, a
    /// counter of in-flight users).
    Crowd,
    /// Twins: 2..=4 threads released together whose FIRST op is the same entry point with the
    /// same discrete arguments (op kind, depth, delta_depth; for coverage queries often the same
    /// radius too) and different positions / cells.  Scenario number `i` takes its op kind from a
    /// fixed rotation, so every entry point of the menu is first-used simultaneously in every
    /// batch.  Catches lazily built state that hangs off ONE entry point and is keyed by one of
    /// its discrete arguments (a per-delta_depth pattern cache, a per-depth look-up table of one
    /// accessor), which random op mixes rarely first-use from two threads at the same instant.
    Twins,
}

pub fn n_hash(d: u8) -> u64 {
    12u64 << (2 * d as u32)
}

/// Approximate angular size of a cell at depth d (radians).
pub fn cell_size(d: u8) -> f64 {
    (std::f64::consts::PI / 3.0).sqrt() / (1u64 << d) as f64
}

const TWO_PI: f64 = 2.0 * std::f64::consts::PI;
const HALF_PI: f64 = 0.5 * std::f64::consts::PI;

fn gen_pos(rng: &mut Rng) -> (f64, f64) {
    // Uniform on the sphere-ish, with the special places over-represented.
    let lon = match rng.below(8) {
        0 => (rng.below(8) as f64) * (std::f64::consts::PI / 4.0),
        _ => rng.uniform(0.0, TWO_PI),
    };
    let lat = match rng.below(10) {
        0 => HALF_PI,
        1 => -HALF_PI,
        2 => (2.0f64 / 3.0).asin() * if rng.chance(1, 2) { 1.0 } else { -1.0 },
        3 => 0.0,
        _ => (rng.uniform(-1.0, 1.0)).asin(),
    };
    (lon, lat)
}

/// A cone radius whose coverage recursion starts exactly at depth `s`
/// (`best_starting_depth(r) == s`: the largest `s` with `r < 0.841 / 2^s`).
pub fn radius_for_root_depth(rng: &mut Rng, s: u8) -> f64 {
    0.8410686705685088 / (1u64 << s) as f64 * rng.uniform(0.55, 0.95)
}

/// Root depth to aim a coverage query of working depth `d` at: a depth from `pool` when it is
/// within reach (not more than `max_up` levels above `d`: the cell count explodes otherwise;
/// any number of levels BELOW is fine: a tiny cone whose root layer is deeper than its result).
fn pick_root_depth(rng: &mut Rng, d: u8, pool: &[u8], max_up: u8) -> Option<u8> {
    let cands: Vec<u8> = pool.iter().copied().filter(|s| *s + max_up >= d).collect();
    if cands.is_empty() { None } else { Some(cands[rng.below(cands.len() as u64) as usize]) }
}

/// Generate one op of kind index `k` at depth `d`.
fn gen_op(rng: &mut Rng, k: usize, d: u8, light: bool) -> Op {
    gen_op_pool(rng, k, d, light, &[])
}

/// As [`gen_op`]; coverage ops aim their root depth at one of the depths in `pool` one time in
/// four, so that the query's first touch of its ROOT layer collides with another thread's first
/// use of that very depth (including roots deeper than the working depth: tiny cones).
fn gen_op_pool(rng: &mut Rng, k: usize, d: u8, light: bool, pool: &[u8]) -> Op {
    if !pool.is_empty() && matches!(OP_KINDS[k], "K" | "Kc" | "E" | "Ec") && rng.chance(1, 4) {
        if let Some(s) = pick_root_depth(rng, d, pool, if light { 2 } else { 3 }) {
            let (lon, lat) = gen_pos(rng);
            let lat = lat.max(-1.5).min(1.5);
            let r = radius_for_root_depth(rng, s);
            let dd = if d >= 29 { 0 } else { rng.range(1, 2).min((29 - d) as u64) as u8 };
            return match OP_KINDS[k] {
                "K" => Op::K { d, lon, lat, r },
                "Kc" => Op::Kc { d, dd, lon, lat, r },
                "E" => Op::E { d, lon, lat, a: r, b: r * rng.uniform(0.3, 1.0), pa: rng.uniform(0.0, std::f64::consts::PI) },
                _ => Op::Ec { d, dd, lon, lat, a: r, b: r * rng.uniform(0.3, 1.0), pa: rng.uniform(0.0, std::f64::consts::PI) },
            };
        }
    }
    let (lon, lat) = gen_pos(rng);
    let cs = cell_size(d);
    let big = if light { 2.5 } else { 8.0 };
    match OP_KINDS[k] {
        "L" => Op::L { d },
        "H" => Op::H { d, lon, lat },
        "G" => Op::G { d, h: rng.below(n_hash(d)) },
        "N" => Op::N { d, h: rng.below(n_hash(d)) },
        "K" => {
            // radius of a few cells; sometimes larger so that the recursion first-touches >= 3 depths
            let f = if rng.chance(1, 4) { rng.uniform(2.0, big) } else { rng.uniform(0.3, 2.0) };
            Op::K { d, lon, lat, r: (cs * f).min(3.0) }
        }
        "Kc" => {
            let dd = if d >= 29 { 0 } else { rng.range(1, if light { 3 } else { 4 }).min((29 - d) as u64) as u8 };
            let f = rng.uniform(0.3, if light { 1.5 } else { 3.0 }) / (1u64 << (dd.saturating_sub(2))) as f64;
            Op::Kc { d, dd, lon, lat, r: (cs * f).min(3.0) }
        }
        "E" => {
            // keep away from the exact poles: the elliptical cone needs a well defined position angle
            let lat = lat.max(-1.5).min(1.5);
            let a = (cs * rng.uniform(0.5, if light { 1.5 } else { 4.0 })).min(1.0);
            let b = a * rng.uniform(0.3, 1.0);
            Op::E { d, lon, lat, a, b, pa: rng.uniform(0.0, std::f64::consts::PI) }
        }
        "P" => {
            // small convex polygon (triangle or quadrilateral) of a few cells around a non-polar centre
            let lat = lat.max(-1.3).min(1.3);
            let n = if rng.chance(1, 2) { 3 } else { 4 };
            let rad = (cs * rng.uniform(0.6, if light { 1.5 } else { 4.0 })).min(0.5);
            let phase = rng.uniform(0.0, TWO_PI);
            let mut verts = Vec::with_capacity(n);
            for i in 0..n {
                let a = phase + TWO_PI * (i as f64) / (n as f64);
                let vlat = lat + rad * a.sin();
                let vlon = lon + rad * a.cos() / lat.cos().max(0.2);
                let vlon = ((vlon % TWO_PI) + TWO_PI) % TWO_PI;
                verts.push((vlon, vlat.max(-1.55).min(1.55)));
            }
            Op::P { d, verts, exact: rng.chance(1, 2) }
        }
        "X" => {
            // delta_depth >= 1: with 0 every edge function of the library panics on a shift overflow
            // (a pure-function matter, property C14, not ours); only depth 29 is left with 0
            let dd = if d >= 29 { 0 } else { rng.range(1, if light { 2 } else { 3 }).min((29 - d) as u64) as u8 };
            // base cells 4..=11 only: for north-polar-cap cells the library prints a debug line
            // (src/lib.rs `npc_egde_direction_from_neighbour`), and taking the stdout lock inside
            // a racing thread would add a synchronisation edge the harness must not introduce
            let nh = n_hash(d);
            Op::X { d, h: nh / 3 + rng.below(nh - nh / 3), dd }
        }
        "B" => Op::B { d, lon, lat: lat.max(-1.57).min(1.57) },
        "R" => Op::R { d, h: rng.below(n_hash(d)) },
        "V" => Op::V { d, lon, lat, r: if rng.chance(1, 2) { Some(if rng.chance(1, 8) { rng.uniform(0.05, 1.6) } else { (cs * rng.uniform(0.2, 4.0)).min(1.0) }) } else { None } },
        "Zh" => Op::Zh { d, lon },
        "Zc" => Op::Zc { d },
        "Zd" => Op::Zd { lon },
        "W" => {
            // a half-open range of 1..=4 depths ending at d (so the op first-touches d)
            let len = rng.range(1, 4).min(d as u64 + 1) as u8;
            Op::W { from: d + 1 - len, to: d + 1, lon, lat, r: rng.uniform(0.0, 0.2) }
        }
        "Ec" => {
            let lat = lat.max(-1.5).min(1.5);
            let dd = if d >= 29 { 0 } else { rng.range(1, if light { 2 } else { 3 }).min((29 - d) as u64) as u8 };
            let a = (cs * rng.uniform(0.5, if light { 1.2 } else { 2.5 })).min(1.0);
            let b = a * rng.uniform(0.3, 1.0);
            Op::Ec { d, dd, lon, lat, a, b, pa: rng.uniform(0.0, std::f64::consts::PI) }
        }
        _ => unreachable!(),
    }
}

/// Which fault kinds a run enables (swarm): bit 0 stall, bit 1 crash-caller, bit 2 late-joiner.
pub const FAULT_STALL: u8 = 1;
pub const FAULT_CRASH: u8 = 2;
pub const FAULT_LATE: u8 = 4;

/// Coverage-centred scenarios (see [`Profile::Cover`]).
/// Cover sub-profile: every thread issues ONE cone of unusual size (0.5 rad .. more than the
/// whole sky) at the same shallow depth; the later threads often arrive late.
fn generate_cover_big(rng: &mut Rng) -> Scenario {
    let n_threads = rng.range(2, 3) as usize;
    let d = rng.range(0, 4) as u8;
    let mut threads = Vec::with_capacity(n_threads);
    for ti in 0..n_threads {
        let (lon, lat) = gen_pos(rng);
        let r = rng.uniform(0.5, 3.3);
        let op = if d < 4 && rng.chance(1, 4) { Op::Kc { d, dd: 1, lon, lat, r } } else { Op::K { d, lon, lat, r } };
        let late = ti > 0 && rng.chance(1, 2);
        threads.push(ThreadSpec { start: if late { Start::Late } else { Start::Line }, ops: vec![op] });
    }
    Scenario { threads, faults: Vec::new() }
}

fn generate_cover(seed: u64) -> Scenario {
    let mut rng = Rng::new(seed);
    if rng.chance(1, 4) {
        return generate_cover_big(&mut rng);
    }
    let n_threads = rng.range(2, 3) as usize;
    let d = rng.range(3, 29) as u8;
    let (lon, lat) = gen_pos(&mut rng);
    let lat = lat.max(-1.4).min(1.4);
    let cs = cell_size(d);
    let mut threads = Vec::with_capacity(n_threads);
    for ti in 0..n_threads {
        let n_ops = rng.range(1, 2) as usize;
        let mut ops = Vec::with_capacity(n_ops);
        for _ in 0..n_ops {
            // nearby positions so that the queries share their coarse cells
            let lo = lon + rng.uniform(-2.0, 2.0) * cs;
            let la = (lat + rng.uniform(-2.0, 2.0) * cs).max(-1.5).min(1.5);
            let f = rng.uniform(3.0, 12.0);
            let op = match rng.below(9) {
                // a cone of unusual size at a shallow depth (up to more than the whole sky): its
                // recursion starts at depth 0 and first-touches every depth down to the target
                0 if d <= 5 || rng.chance(1, 4) => {
                    let dbig = if d <= 5 { d } else { rng.range(0, 5) as u8 };
                    Op::K { d: dbig, lon: lo, lat: la, r: rng.uniform(0.3, 3.3) }
                }
                8 => {
                    let dd = if d >= 28 { 0 } else { 1 };
                    let a = (cs * f * 0.25).min(1.0);
                    Op::Ec { d: d.min(29 - dd), dd, lon: lo, lat: la, a, b: a * rng.uniform(0.4, 1.0), pa: rng.uniform(0.0, std::f64::consts::PI) }
                }
                0..=3 => Op::K { d, lon: lo, lat: la, r: (cs * f).min(1.5) },
                4 => {
                    let dd = if d >= 28 { 0 } else { rng.range(1, 2) as u8 };
                    Op::Kc { d: d.min(29 - dd), dd, lon: lo, lat: la, r: (cs * f).min(1.5) }
                }
                5 => {
                    let a = (cs * f).min(1.0);
                    Op::E { d, lon: lo, lat: la, a, b: a * rng.uniform(0.4, 1.0), pa: rng.uniform(0.0, std::f64::consts::PI) }
                }
                // a first user of one of the intermediate depths the queries go through
                6 => Op::L { d: d.saturating_sub(rng.range(1, 3) as u8) },
                _ => Op::V { d: d.saturating_sub(rng.range(0, 3) as u8).max(1), lon: lo, lat: la, r: None },
            };
            ops.push(op);
        }
        let late = ti > 0 && rng.chance(1, 2);
        threads.push(ThreadSpec { start: if late { Start::Late } else { Start::Line }, ops });
    }
    let mut faults = Vec::new();
    if rng.chance(1, 2) {
        let ti = rng.below(n_threads as u64) as u8;
        faults.push(Fault::Stall { thread: ti, at_event: rng.range(1, 12) as u32, steps: rng.range(1, 30) as u32 });
    }
    Scenario { threads, faults }
}

/// The `k`-th unordered pair (d1 <= d2) of depths, k in 0..465.
pub fn depth_pair(k: u64) -> (u8, u8) {
    let mut k = k % 465;
    for d1 in 0..30u64 {
        let n = 30 - d1;
        if k < n {
            return (d1 as u8, (d1 + k) as u8);
        }
        k -= n;
    }
    (0, 0)
}

/// Pair-sweep scenarios (see [`Profile::Pairs`]).
fn generate_pairs(seed: u64, index: u64) -> Scenario {
    let mut rng = Rng::new(seed);
    let (d1, d2) = depth_pair(index);
    let n_threads = match rng.below(10) { 0..=5 => 2, 6..=7 => 3, 8 => 4, _ => 6 } as usize;
    // light first-use ops: L H G N B R V W
    let light_kinds = [0usize, 1, 2, 3, 9, 10, 11, 16];
    let mut threads = Vec::with_capacity(n_threads);
    for ti in 0..n_threads {
        let n_ops = rng.range(1, 3) as usize;
        let mut ops = Vec::with_capacity(n_ops);
        // even threads go d1 then d2, odd threads the reverse
        for oi in 0..n_ops {
            let first = if ti % 2 == 0 { d1 } else { d2 };
            let second = if ti % 2 == 0 { d2 } else { d1 };
            let d = if oi == 0 { first } else if oi == 1 { second } else if rng.chance(1, 2) { d1 } else { d2 };
            let k = light_kinds[rng.below(light_kinds.len() as u64) as usize];
            ops.push(gen_op(&mut rng, k, d, true));
        }
        let late = ti > 0 && rng.chance(1, 5);
        threads.push(ThreadSpec { start: if late { Start::Late } else { Start::Line }, ops });
    }
    let mut faults = Vec::new();
    if rng.chance(1, 2) {
        let ti = rng.below(n_threads as u64) as u8;
        faults.push(Fault::Stall { thread: ti, at_event: rng.range(1, 8) as u32, steps: rng.range(1, 30) as u32 });
    }
    Scenario { threads, faults }
}

/// Cross-match style scenarios (see [`Profile::Xmatch`]).
fn generate_xmatch(seed: u64) -> Scenario {
    let mut rng = Rng::new(seed);
    let n_threads = rng.range(2, 4) as usize;
    let d = rng.range(2, 27) as u8;
    let cs = cell_size(d);
    let radii = [cs * rng.uniform(0.4, 1.5), if rng.chance(1, 3) { radius_for_root_depth(&mut rng, d.saturating_sub(1)) } else { cs * rng.uniform(0.4, 1.5) }];
    let dds = [1u8, if rng.chance(1, 2) { 2 } else { 1 }];
    let mut threads = Vec::with_capacity(n_threads);
    for ti in 0..n_threads {
        let n_ops = rng.range(2, 3) as usize;
        let mut ops = Vec::with_capacity(n_ops);
        for _ in 0..n_ops {
            let (lon, lat) = gen_pos(&mut rng);
            let lat = lat.max(-1.5).min(1.5);
            // threads prefer "their" parameters, but mix
            let r = radii[if rng.chance(3, 4) { ti % 2 } else { (ti + 1) % 2 }];
            let dd = dds[if rng.chance(3, 4) { ti % 2 } else { (ti + 1) % 2 }].min(29 - d);
            let op = match rng.below(6) {
                0 | 1 => Op::K { d, lon, lat, r },
                2 | 3 => Op::Kc { d, dd, lon, lat, r },
                4 => Op::E { d, lon, lat, a: r, b: r * 0.6, pa: rng.uniform(0.0, std::f64::consts::PI) },
                _ => Op::Ec { d, dd, lon, lat, a: r, b: r * 0.6, pa: rng.uniform(0.0, std::f64::consts::PI) },
            };
            ops.push(op);
        }
        let late = ti > 0 && rng.chance(1, 4);
        threads.push(ThreadSpec { start: if late { Start::Late } else { Start::Line }, ops });
    }
    Scenario { threads, faults: Vec::new() }
}

/// Long-history scenarios (see [`Profile::Long`]).
fn generate_long(seed: u64) -> Scenario {
    let mut rng = Rng::new(seed);
    let d1 = rng.range(1, 29) as u8;
    let mut d2 = rng.range(1, 29) as u8;
    if d2 == d1 { d2 = if d1 < 29 { d1 + 1 } else { d1 - 1 }; }
    let n_threads = rng.range(2, 3) as usize;
    let mut threads = Vec::with_capacity(n_threads);
    for ti in 0..n_threads {
        let (lon, lat) = gen_pos(&mut rng);
        let lat = lat.max(-1.5).min(1.5);
        let mut ops = Vec::new();
        if ti == 0 {
            // the busy thread: a long run on d1, then d2 (first-used by somebody else meanwhile)
            let n = rng.range(260, 600) as u16;
            ops.push(if rng.chance(2, 3) { Op::Vx { d: d1, n, lon, lat } } else { Op::Hx { d: d1, n, lon, lat } });
            ops.push(if rng.chance(1, 2) { Op::V { d: d2, lon, lat, r: None } } else { Op::L { d: d2 } });
            if rng.chance(1, 2) {
                ops.push(Op::V { d: d2, lon, lat, r: Some(cell_size(d2)) });
            }
        } else {
            // the others first-use d2 (both tables), some of them late
            ops.push(if rng.chance(1, 2) { Op::V { d: d2, lon, lat, r: None } } else { Op::H { d: d2, lon, lat } });
            if rng.chance(1, 2) {
                ops.push(Op::V { d: d2, lon, lat, r: Some(cell_size(d2)) });
            }
        }
        let late = ti > 0 && rng.chance(1, 3);
        threads.push(ThreadSpec { start: if late { Start::Late } else { Start::Line }, ops });
    }
    Scenario { threads, faults: Vec::new() }
}

/// Crowd scenarios (see [`Profile::Crowd`]).
fn generate_crowd(seed: u64) -> Scenario {
    let mut rng = Rng::new(seed);
    let n_threads = rng.range(7, MAX_THREADS as u64) as usize;
    let d0 = rng.below(N_DEPTHS as u64) as u8;
    let d1 = if rng.chance(1, 3) { rng.below(N_DEPTHS as u64) as u8 } else { d0 };
    // light first-use ops only: L H N B R V (G now and then: it is the widest per-cell op)
    let light_kinds = [0usize, 0, 1, 3, 9, 10, 11, 11];
    let mut threads: Vec<ThreadSpec> = Vec::with_capacity(n_threads);
    for ti in 0..n_threads {
        let n_ops = if rng.chance(1, 5) { 2 } else { 1 };
        let mut ops = Vec::new();
        for _ in 0..n_ops {
            let d = if rng.chance(3, 4) { d0 } else { d1 };
            let k = if rng.chance(1, 12) { 2 } else { light_kinds[rng.below(light_kinds.len() as u64) as usize] };
            ops.push(gen_op(&mut rng, k, d, true));
        }
        let late = ti > 0 && rng.chance(1, 6);
        threads.push(ThreadSpec { start: if late { Start::Late } else { Start::Line }, ops });
    }
    let mut faults = Vec::new();
    for _ in 0..rng.below(3) {
        let ti = rng.below(n_threads as u64) as u8;
        faults.push(Fault::Stall { thread: ti, at_event: rng.range(1, 8) as u32, steps: rng.range(1, 40) as u32 });
    }
    Scenario { threads, faults }
}

/// Op kinds of the twins rotation: entry points with a discrete argument besides the depth
/// (delta_depth: X, Kc, Ec) come up more often.
const TWIN_KINDS: [usize; 19] = [8, 5, 15, 2, 8, 3, 4, 8, 6, 7, 5, 9, 10, 8, 11, 16, 15, 1, 0];

fn with_dd(op: Op, new_dd: u8) -> Op {
    match op {
        Op::X { d, h, .. } => Op::X { d, h, dd: if d >= 29 { 0 } else { new_dd.max(1).min(29 - d) } },
        Op::Kc { d, lon, lat, r, .. } => Op::Kc { d, dd: new_dd.min(29 - d), lon, lat, r },
        Op::Ec { d, lon, lat, a, b, pa, .. } => Op::Ec { d, dd: new_dd.min(29 - d), lon, lat, a, b, pa },
        o => o,
    }
}

/// Twin scenarios (see [`Profile::Twins`]).
fn generate_twins(seed: u64, index: u64) -> Scenario {
    let mut rng = Rng::new(seed);
    let k = TWIN_KINDS[(index % TWIN_KINDS.len() as u64) as usize];
    let n_threads = match rng.below(4) { 0 | 1 => 2, 2 => 3, _ => 4 } as usize;
    let d = rng.below(N_DEPTHS as u64) as u8;
    let dd = rng.range(1, 3) as u8;
    let other = rng.below(N_DEPTHS as u64) as u8;
    let same_radius = rng.chance(1, 2);
    let first = with_dd(gen_op(&mut rng, k, d, true), dd);
    let mut threads = Vec::with_capacity(n_threads);
    for ti in 0..n_threads {
        let mut op = with_dd(gen_op(&mut rng, k, d, true), dd);
        if same_radius {
            // same radius / semi-axes as the first twin, own position
            op = match (op, &first) {
                (Op::K { d, lon, lat, .. }, Op::K { r, .. }) => Op::K { d, lon, lat, r: *r },
                (Op::Kc { d, dd, lon, lat, .. }, Op::Kc { r, .. }) => Op::Kc { d, dd, lon, lat, r: *r },
                (Op::E { d, lon, lat, pa, .. }, Op::E { a, b, .. }) => Op::E { d, lon, lat, a: *a, b: *b, pa },
                (Op::Ec { d, dd, lon, lat, pa, .. }, Op::Ec { a, b, .. }) => Op::Ec { d, dd, lon, lat, a: *a, b: *b, pa },
                (Op::V { d, lon, lat, .. }, Op::V { r, .. }) => Op::V { d, lon, lat, r: *r },
                (o, _) => o,
            };
        }
        let mut ops = vec![op];
        if rng.chance(1, 3) {
            // a second op: the same entry point at another depth, or a light op on the same depth
            if rng.chance(1, 2) {
                ops.push(with_dd(gen_op(&mut rng, k, other, true), dd));
            } else {
                let lk = [0usize, 1, 3, 10, 11][rng.below(5) as usize];
                ops.push(gen_op(&mut rng, lk, d, true));
            }
        }
        let late = ti > 0 && rng.chance(1, 8);
        threads.push(ThreadSpec { start: if late { Start::Late } else { Start::Line }, ops });
    }
    let mut faults = Vec::new();
    if rng.chance(1, 3) {
        let ti = rng.below(n_threads as u64) as u8;
        faults.push(Fault::Stall { thread: ti, at_event: rng.range(1, 8) as u32, steps: rng.range(1, 30) as u32 });
    }
    Scenario { threads, faults }
}

/// Range-centred scenarios (see [`Profile::Ranges`]).
fn generate_ranges(seed: u64) -> Scenario {
    let mut rng = Rng::new(seed);
    let n_threads = rng.range(3, 4) as usize;
    let mut threads = Vec::with_capacity(n_threads);
    for ti in 0..n_threads {
        let n_ops = rng.range(1, 2) as usize;
        let mut ops = Vec::with_capacity(n_ops);
        for _ in 0..n_ops {
            let (lon, lat) = gen_pos(&mut rng);
            let from = rng.below(28) as u8;
            let len = rng.range(1, 4) as u8;
            let to = (from + len).min(30);
            let op = match rng.below(6) {
                0 => {
                    // a narrow cone at depth to-1: its constants range is [best_starting_depth(r), to-1]
                    let d = to - 1;
                    Op::K { d, lon, lat: lat.max(-1.5).min(1.5), r: cell_size(d) * rng.uniform(0.8, 5.0) }
                }
                1 => Op::V { d: (to - 1).max(1), lon, lat, r: None },
                _ => Op::W { from, to, lon, lat, r: rng.uniform(0.0, 0.3) },
            };
            ops.push(op);
        }
        let late = ti > 0 && rng.chance(1, 3);
        threads.push(ThreadSpec { start: if late { Start::Late } else { Start::Line }, ops });
    }
    let mut faults = Vec::new();
    if rng.chance(1, 2) {
        let ti = rng.below(n_threads as u64) as u8;
        faults.push(Fault::Stall { thread: ti, at_event: rng.range(1, 10) as u32, steps: rng.range(1, 30) as u32 });
    }
    Scenario { threads, faults }
}

/// Crash-centred scenarios (see [`Profile::Crash`]).
fn generate_crash(seed: u64) -> Scenario {
    let mut rng = Rng::new(seed);
    let n_threads = rng.range(2, 4) as usize;
    let d0 = rng.below(N_DEPTHS as u64) as u8;
    let d1 = if rng.chance(1, 3) { rng.below(N_DEPTHS as u64) as u8 } else { d0 };
    // light first-use ops only: L H G N B R V
    let light_kinds = [0usize, 1, 2, 3, 9, 10, 11];
    let mut threads: Vec<ThreadSpec> = Vec::with_capacity(n_threads);
    for ti in 0..n_threads {
        let n_ops = rng.range(1, 2) as usize;
        let mut ops = Vec::new();
        for _ in 0..n_ops {
            let d = if rng.chance(3, 4) { d0 } else { d1 };
            let k = light_kinds[rng.below(light_kinds.len() as u64) as usize];
            ops.push(gen_op(&mut rng, k, d, true));
        }
        let late = ti > 0 && rng.chance(1, 4);
        threads.push(ThreadSpec { start: if late { Start::Late } else { Start::Line }, ops });
    }
    // 1..=2 crashing calls, each inserted at a random position of a random thread
    for _ in 0..rng.range(1, 2) {
        let ti = rng.below(n_threads as u64) as usize;
        let pos = rng.below(threads[ti].ops.len() as u64 + 1) as usize;
        let zk = 12 + rng.below(3) as usize;
        let d = if rng.chance(3, 4) { d0 } else { d1 };
        let op = gen_op(&mut rng, zk, d, true);
        threads[ti].ops.insert(pos, op);
    }
    let mut faults = Vec::new();
    if rng.chance(1, 2) {
        let ti = rng.below(n_threads as u64) as u8;
        faults.push(Fault::Stall { thread: ti, at_event: rng.range(1, 8) as u32, steps: rng.range(1, 30) as u32 });
    }
    Scenario { threads, faults }
}

/// Like [`generate`], for profiles whose scenario depends on its index in the batch.
pub fn generate_indexed(seed: u64, index: u64, profile: Profile) -> Scenario {
    if profile == Profile::Pairs {
        return generate_pairs(seed, index);
    }
    if profile == Profile::Twins {
        return generate_twins(seed, index);
    }
    generate(seed, profile)
}

pub fn generate(seed: u64, profile: Profile) -> Scenario {
    if profile == Profile::Pairs {
        return generate_pairs(seed, seed);
    }
    if profile == Profile::Cover {
        return generate_cover(seed);
    }
    if profile == Profile::Crash {
        return generate_crash(seed);
    }
    if profile == Profile::Ranges {
        return generate_ranges(seed);
    }
    if profile == Profile::Xmatch {
        return generate_xmatch(seed);
    }
    if profile == Profile::Long {
        return generate_long(seed);
    }
    if profile == Profile::Crowd {
        return generate_crowd(seed);
    }
    if profile == Profile::Twins {
        return generate_twins(seed, seed);
    }
    let mut rng = Rng::new(seed);
    let (max_threads, max_ops, light) = match profile {
        Profile::Full => (6u64, 4u64, false),
        Profile::Light => (5, 2, true),
        Profile::Tiny => (4, 1, true),
        Profile::Cover | Profile::Crash | Profile::Ranges | Profile::Pairs | Profile::Xmatch | Profile::Long | Profile::Crowd | Profile::Twins => unreachable!(),
    };
    // thread count: biased to small
    let n_threads = match rng.below(10) {
        0..=3 => 2,
        4..=6 => 3.min(max_threads),
        7..=8 => 4.min(max_threads),
        _ => rng.range(2, max_threads),
    } as usize;
    // depth pool: 1..=3 depths so that first uses collide
    let pool_n = match rng.below(20) { 0..=8 => 1, 9..=14 => 2, 15..=17 => 3, 18 => 4, _ => 5 };
    let mut pool: Vec<u8> = Vec::new();
    while pool.len() < pool_n {
        let d = rng.below(N_DEPTHS as u64) as u8;
        if !pool.contains(&d) { pool.push(d); }
    }
    // enabled op kinds (swarm)
    let mut kinds: Vec<usize> = Vec::new();
    if profile == Profile::Tiny {
        kinds.push(0); // L
        if rng.chance(1, 2) { kinds.push(11); } // V
    } else {
        for &k in ORDINARY_KINDS.iter() {
            // heavy geometry less often in the light profile
            let heavy = matches!(OP_KINDS[k], "K" | "Kc" | "E" | "Ec" | "P");
            let p = if heavy { if light { 2 } else { 4 } } else { 4 };
            if rng.chance(p, 10) { kinds.push(k); }
        }
        if kinds.is_empty() { kinds.push(if rng.chance(1, 2) { 0 } else { 11 }); }
    }
    let fault_mask: u8 = if profile == Profile::Tiny { rng.below(2) as u8 * FAULT_STALL | (rng.below(2) as u8) * FAULT_LATE } else { rng.below(8) as u8 };
    let mut threads = Vec::with_capacity(n_threads);
    for ti in 0..n_threads {
        let n_ops = rng.range(1, max_ops) as usize;
        let mut ops = Vec::with_capacity(n_ops);
        for _ in 0..n_ops {
            let d = pool[rng.below(pool.len() as u64) as usize];
            let k = kinds[rng.below(kinds.len() as u64) as usize];
            // crashing caller: replaces an op now and then when enabled
            if fault_mask & FAULT_CRASH != 0 && rng.chance(1, 6) {
                let zk = 12 + rng.below(3) as usize;
                ops.push(gen_op(&mut rng, zk, d, light));
            } else {
                ops.push(gen_op_pool(&mut rng, k, d, light, &pool));
            }
        }
        // late joiner: never thread 0 (at least one line thread), at most half the threads
        let late = ti > 0 && fault_mask & FAULT_LATE != 0 && rng.chance(1, 3);
        threads.push(ThreadSpec { start: if late { Start::Late } else { Start::Line }, ops });
    }
    let mut faults = Vec::new();
    if fault_mask & FAULT_STALL != 0 {
        for ti in 0..n_threads {
            if rng.chance(1, 2) {
                // seam events 1..=6 cover: first read, once entry, constructing, slot write, second read
                faults.push(Fault::Stall { thread: ti as u8, at_event: rng.range(1, 6) as u32, steps: rng.range(1, 30) as u32 });
            }
        }
    }
    Scenario { threads, faults }
}

// ------------------------------------------------------------------------------------------
// Digest (FNV-1a over 64-bit words) used for op results and event logs.
// ------------------------------------------------------------------------------------------

#[derive(Clone, Copy, Debug)]
pub struct Digest(pub u64);

impl Default for Digest {
    fn default() -> Self { Digest(0xcbf2_9ce4_8422_2325) }
}

impl Digest {
    pub fn new() -> Digest { Digest::default() }
    pub fn u64(&mut self, v: u64) {
        for i in 0..8 {
            self.0 ^= (v >> (8 * i)) & 0xff;
            self.0 = self.0.wrapping_mul(0x0000_0100_0000_01B3);
        }
    }
    pub fn f64(&mut self, v: f64) { self.u64(v.to_bits()); }
    pub fn finish(&self) -> u64 { self.0 }
}

/// Minimal JSON string escaping.
pub fn json_escape(s: &str) -> String {
    let mut o = String::with_capacity(s.len() + 2);
    for c in s.chars() {
        match c {
            '"' => o.push_str("\\\""),
            '\\' => o.push_str("\\\\"),
            '\n' => o.push_str("\\n"),
            '\r' => o.push_str("\\r"),
            '\t' => o.push_str("\\t"),
            c if (c as u32) < 0x20 => { let _ = write!(o, "\\u{:04x}", c as u32); }
            c => o.push(c),
        }
    }
    o
}

#[cfg(test)]
mod tests {
    use super::*;
    #[test]
    fn roundtrip() {
        for p in [Profile::Full, Profile::Light, Profile::Tiny, Profile::Cover, Profile::Crash, Profile::Ranges, Profile::Pairs, Profile::Xmatch, Profile::Long, Profile::Crowd, Profile::Twins] {
            for s in 0..2000u64 {
                let sc = generate(derive_seed(1, 2, s), p);
                let txt = encode(&sc);
                let back = decode(&txt).unwrap();
                assert_eq!(encode(&back), txt);
                assert!(sc.threads.len() >= 2 && sc.threads.len() <= MAX_THREADS);
                assert!(sc.threads[0].start == Start::Line);
                for t in &sc.threads { for o in &t.ops { assert!(o.depth() <= 29); } }
            }
        }
    }
}
