//! Seam between `cdshealpix`'s two lazily initialised tables and the engine-B simulator.
//!
//! * [`Slots<T>`] replaces `[Option<T>; 30]`: `Index` / `IndexMut` are the interception points,
//!   so every existing `TABLE[depth as usize]` expression compiles unchanged and is seen by the
//!   simulator (scheduling point + happens-before monitor).
//! * [`Once`] replaces `std::sync::Once`: shuttle's model does the blocking / winner election;
//!   this wrapper adds the release/acquire bookkeeping of the monitor's own vector clocks.
//! * [`constructing`] counts constructions and is the stall point inside the initialiser.
//!
//! All simulated threads are coroutines on ONE OS thread, so the monitor is a plain
//! `thread_local!` and there is no real concurrency anywhere in here.  Never use this crate
//! with real threads.
//!
//! Vector-clock discipline (own clocks, not shuttle's, so the rules are exactly these):
//!   acquire(x): C_t := max(C_t, x);   release: snapshot C_t, then C_t[t] += 1.
//! An access by `u` is ordered after an access stamped (t, e) iff t == u or e <= C_u[t].

use std::cell::RefCell;
use std::ops::{Index, IndexMut};

pub const MAX_TASKS: usize = 12;
pub const N_SLOTS: usize = 30;
pub const TABLE_LAYERS: u8 = 0;
pub const TABLE_CSTS: u8 = 1;
pub const TABLE_ONCE: u8 = 254;
pub const TABLE_ATOMIC: u8 = 253;

pub type Clock = [u32; MAX_TASKS];

#[derive(Clone, Copy, Debug, PartialEq, Eq)]
#[repr(u8)]
pub enum Kind {
    Read = 0,
    Write = 1,
    OnceEnter = 2,
    OncePost = 3,
    Construct = 4,
    /// an operation on one of the crate's (facade) atomics
    Atomic = 5,
}

impl Kind {
    pub fn name(self) -> &'static str {
        match self {
            Kind::Read => "read",
            Kind::Write => "write",
            Kind::OnceEnter => "once-enter",
            Kind::OncePost => "once-post",
            Kind::Construct => "construct",
            Kind::Atomic => "atomic-op",
        }
    }
}

#[derive(Clone, Copy, Debug)]
pub struct Event {
    pub task: u8,
    pub table: u8,
    pub slot: u8,
    pub kind: Kind,
    /// for reads: whether the slot held `Some` when read (filled by `Slots::index`)
    pub saw_some: bool,
}

#[derive(Clone, Debug)]
pub struct Race {
    pub table: u8,
    pub slot: u8,
    pub first_task: u8,
    pub first_kind: Kind,
    pub first_epoch: u32,
    pub second_task: u8,
    pub second_kind: Kind,
    pub second_clock: Clock,
    /// index of the second access in the event log
    pub at_event: usize,
}

#[derive(Clone, Debug)]
pub struct DoubleConstruct {
    pub table: u8,
    pub depth: u8,
    pub task: u8,
    pub count: u32,
    pub at_event: usize,
}

#[derive(Default)]
pub struct Report {
    pub events: Vec<Event>,
    pub races: Vec<Race>,
    pub double_constructs: Vec<DoubleConstruct>,
    pub constructed: [[u32; N_SLOTS]; 2],
    pub task_events: [u32; MAX_TASKS],
}

struct Sim {
    active: bool,
    clocks: [Clock; MAX_TASKS],
    once_clocks: Vec<(usize, Clock)>,
    once_keys: Vec<usize>,
    atomic_keys: Vec<usize>,
    exec_epoch: u64,
    fence_clock: Clock,
    last_write: [[Option<(u8, u32)>; N_SLOTS]; 2],
    last_reads: [[[u32; MAX_TASKS]; N_SLOTS]; 2],
    constructed: [[u32; N_SLOTS]; 2],
    task_events: [u32; MAX_TASKS],
    seam_calls: u64,
    events: Vec<Event>,
    races: Vec<Race>,
    double_constructs: Vec<DoubleConstruct>,
}

impl Sim {
    const fn new() -> Sim {
        Sim {
            active: false,
            clocks: [[0; MAX_TASKS]; MAX_TASKS],
            once_clocks: Vec::new(),
            once_keys: Vec::new(),
            atomic_keys: Vec::new(),
            exec_epoch: 0,
            fence_clock: [0; MAX_TASKS],
            last_write: [[None; N_SLOTS]; 2],
            last_reads: [[[0; MAX_TASKS]; N_SLOTS]; 2],
            constructed: [[0; N_SLOTS]; 2],
            task_events: [0; MAX_TASKS],
            seam_calls: 0,
            events: Vec::new(),
            races: Vec::new(),
            double_constructs: Vec::new(),
        }
    }
    fn reset(&mut self) {
        self.active = false;
        self.clocks = [[0; MAX_TASKS]; MAX_TASKS];
        for t in 0..MAX_TASKS {
            self.clocks[t][t] = 1;
        }
        self.once_clocks.clear();
        self.once_keys.clear();
        self.atomic_keys.clear();
        // a new execution: every facade atomic lazily returns to its initial value (see `atomics`)
        self.exec_epoch += 1;
        self.fence_clock = [0; MAX_TASKS];
        self.last_write = [[None; N_SLOTS]; 2];
        self.last_reads = [[[0; MAX_TASKS]; N_SLOTS]; 2];
        self.constructed = [[0; N_SLOTS]; 2];
        self.task_events = [0; MAX_TASKS];
        self.seam_calls = 0;
        self.events.clear();
        self.races.clear();
        self.double_constructs.clear();
    }
}

thread_local! {
    static SIM: RefCell<Sim> = const { RefCell::new(Sim::new()) };
}

fn me() -> usize {
    let id: usize = shuttle::current::me().into();
    assert!(id < MAX_TASKS, "verif_rt: more than {} simulated tasks", MAX_TASKS);
    id
}

/// A bare context switch: not `yield_now` (PCT treats it as a priority hint) and not an atomic
/// (which would add a happens-before edge).
fn scheduling_point() {
    shuttle::thread::sleep(std::time::Duration::from_millis(0));
}

/// One seam event: count it for the task (the scheduler's stall trigger reads this counter),
/// give the scheduler a chance to run someone else, then log it.  Returns the index of the
/// event in the log, or `None` when the monitor is inactive.
fn seam(table: u8, slot: u8, kind: Kind) -> Option<usize> {
    let active = SIM.with(|s| {
        let mut s = s.borrow_mut();
        s.seam_calls += 1;
        s.active
    });
    if !active {
        return None;
    }
    let t = me();
    SIM.with(|s| s.borrow_mut().task_events[t] += 1);
    scheduling_point();
    SIM.with(|s| {
        let mut s = s.borrow_mut();
        s.events.push(Event { task: t as u8, table, slot, kind, saw_some: false });
        Some(s.events.len() - 1)
    })
}

fn ordered(clock_u: &Clock, u: usize, t: u8, epoch: u32) -> bool {
    t as usize == u || epoch <= clock_u[t as usize]
}

fn on_access(table: u8, slot: usize, kind: Kind) -> Option<usize> {
    let idx = seam(table, slot as u8, kind)?;
    let u = me();
    SIM.with(|s| {
        let mut s = s.borrow_mut();
        let cu = s.clocks[u];
        let (tb, sl) = (table as usize, slot);
        // any access conflicts with the last write
        if let Some((wt, we)) = s.last_write[tb][sl] {
            if !ordered(&cu, u, wt, we) {
                s.races.push(Race {
                    table, slot: slot as u8, first_task: wt, first_kind: Kind::Write, first_epoch: we,
                    second_task: u as u8, second_kind: kind, second_clock: cu, at_event: idx,
                });
            }
        }
        if kind == Kind::Write {
            // a write also conflicts with every earlier read
            for t in 0..MAX_TASKS {
                let re = s.last_reads[tb][sl][t];
                if re != 0 && !ordered(&cu, u, t as u8, re) {
                    s.races.push(Race {
                        table, slot: slot as u8, first_task: t as u8, first_kind: Kind::Read, first_epoch: re,
                        second_task: u as u8, second_kind: kind, second_clock: cu, at_event: idx,
                    });
                }
            }
            s.last_write[tb][sl] = Some((u as u8, cu[u]));
            s.last_reads[tb][sl] = [0; MAX_TASKS];
        } else {
            s.last_reads[tb][sl][u] = cu[u];
        }
    });
    Some(idx)
}

/// What `atomics.rs` needs from the monitor.
pub(crate) mod sim_atomics_support_impl {
    use super::*;

    /// Scheduling point + seam event of one atomic operation (no-op when the monitor is off).
    pub fn atomic_seam(key: usize) {
        let idx = SIM.with(|s| {
            let mut s = s.borrow_mut();
            match s.atomic_keys.iter().position(|k| *k == key) {
                Some(i) => i.min(252) as u8,
                None => {
                    s.atomic_keys.push(key);
                    (s.atomic_keys.len() - 1).min(252) as u8
                }
            }
        });
        seam(TABLE_ATOMIC, idx, Kind::Atomic);
    }

    pub fn exec_epoch() -> u64 {
        SIM.with(|s| s.borrow().exec_epoch)
    }

    pub fn acquire(c: &Clock) {
        SIM.with(|s| {
            let mut s = s.borrow_mut();
            if !s.active {
                return;
            }
            let t = me();
            for i in 0..MAX_TASKS {
                if c[i] > s.clocks[t][i] {
                    s.clocks[t][i] = c[i];
                }
            }
        });
    }

    /// Snapshot of the caller's clock (what a release publishes), then advance the caller.
    pub fn release() -> Clock {
        SIM.with(|s| {
            let mut s = s.borrow_mut();
            if !s.active {
                return [0; MAX_TASKS];
            }
            let t = me();
            let c = s.clocks[t];
            s.clocks[t][t] += 1;
            c
        })
    }

    pub fn fence(acq: bool, rel: bool) {
        seam(TABLE_ATOMIC, 252, Kind::Atomic);
        SIM.with(|s| {
            let mut s = s.borrow_mut();
            if !s.active {
                return;
            }
            let t = me();
            if acq {
                let f = s.fence_clock;
                for i in 0..MAX_TASKS {
                    if f[i] > s.clocks[t][i] {
                        s.clocks[t][i] = f[i];
                    }
                }
            }
            if rel {
                let c = s.clocks[t];
                for i in 0..MAX_TASKS {
                    if c[i] > s.fence_clock[i] {
                        s.fence_clock[i] = c[i];
                    }
                }
                s.clocks[t][t] += 1;
            }
        });
    }
}

// ------------------------------------------------------------------------------------------
// Slots
// ------------------------------------------------------------------------------------------

pub struct Slots<T> {
    arr: [Option<T>; N_SLOTS],
    table: u8,
}

/// The never-initialised table (used in the `static mut` initialisers of the guarded build).
pub const fn new_slots<T>(table: u8) -> Slots<T> {
    Slots { arr: [const { None }; N_SLOTS], table }
}

/// Back to the pristine state (between simulated executions; monitor inactive).
pub fn reset_slots<T>(slots: &mut Slots<T>) {
    for s in slots.arr.iter_mut() {
        *s = None;
    }
}

impl<T> Slots<T> {
    /// Uninstrumented view, for the engine's own post-mortem inspection only.
    pub fn raw(&self) -> &[Option<T>; N_SLOTS] {
        &self.arr
    }
}

impl<T> Index<usize> for Slots<T> {
    type Output = Option<T>;
    fn index(&self, i: usize) -> &Option<T> {
        if i >= N_SLOTS {
            // same panic as the plain array, before any seam event
            return &self.arr[i];
        }
        let ev = on_access(self.table, i, Kind::Read);
        let r = &self.arr[i];
        if let Some(idx) = ev {
            let some = r.is_some();
            SIM.with(|s| s.borrow_mut().events[idx].saw_some = some);
        }
        r
    }
}

impl<T> IndexMut<usize> for Slots<T> {
    fn index_mut(&mut self, i: usize) -> &mut Option<T> {
        if i >= N_SLOTS {
            return &mut self.arr[i];
        }
        on_access(self.table, i, Kind::Write);
        &mut self.arr[i]
    }
}

// ------------------------------------------------------------------------------------------
// Once
// ------------------------------------------------------------------------------------------

pub struct Once {
    inner: shuttle::sync::Once,
}

impl Once {
    #[allow(clippy::new_without_default)]
    pub const fn new() -> Once {
        Once { inner: shuttle::sync::Once::new() }
    }

    pub fn call_once<F: FnOnce()>(&self, f: F) {
        let key = self as *const Once as usize;
        // table 254 = "a Once"; slot = index of this Once by first appearance in the execution
        let kidx = once_index(key);
        seam(TABLE_ONCE, kidx, Kind::OnceEnter);
        self.inner.call_once(|| {
            f();
            seam(TABLE_ONCE, kidx, Kind::OncePost);
            release_to(key);
        });
        acquire_from(key);
    }

    pub fn is_completed(&self) -> bool {
        let key = self as *const Once as usize;
        let done = self.inner.is_completed();
        if done {
            acquire_from(key);
        }
        done
    }
}

fn once_index(key: usize) -> u8 {
    SIM.with(|s| {
        let mut s = s.borrow_mut();
        match s.once_keys.iter().position(|k| *k == key) {
            Some(i) => i as u8,
            None => {
                s.once_keys.push(key);
                (s.once_keys.len() - 1).min(253) as u8
            }
        }
    })
}

fn release_to(key: usize) {
    SIM.with(|s| {
        let mut s = s.borrow_mut();
        if !s.active {
            return;
        }
        let t = me();
        let c = s.clocks[t];
        match s.once_clocks.iter_mut().find(|(k, _)| *k == key) {
            Some((_, oc)) => *oc = c,
            None => s.once_clocks.push((key, c)),
        }
        s.clocks[t][t] += 1;
    });
}

fn acquire_from(key: usize) {
    SIM.with(|s| {
        let mut s = s.borrow_mut();
        if !s.active {
            return;
        }
        let t = me();
        if let Some((_, oc)) = s.once_clocks.iter().find(|(k, _)| *k == key) {
            let oc = *oc;
            for i in 0..MAX_TASKS {
                if oc[i] > s.clocks[t][i] {
                    s.clocks[t][i] = oc[i];
                }
            }
        }
    });
}

// ------------------------------------------------------------------------------------------
// Construction counter / stall point inside the initialiser
// ------------------------------------------------------------------------------------------

pub fn constructing(table: u8, depth: u8) {
    let counted = SIM.with(|s| {
        let mut s = s.borrow_mut();
        if (table as usize) < 2 && (depth as usize) < N_SLOTS {
            s.constructed[table as usize][depth as usize] += 1;
            Some(s.constructed[table as usize][depth as usize])
        } else {
            None
        }
    });
    let idx = seam(table, depth, Kind::Construct);
    if let (Some(n), Some(idx)) = (counted, idx) {
        if n > 1 {
            let t = me() as u8;
            SIM.with(|s| s.borrow_mut().double_constructs.push(DoubleConstruct { table, depth, task: t, count: n, at_event: idx }));
        }
    }
}

// ------------------------------------------------------------------------------------------
// Engine-side control
// ------------------------------------------------------------------------------------------

pub mod sim {
    use super::*;

    /// Start of a simulated execution: clear the monitor.  `active == false` is the
    /// single-task reference pass (no scheduling points, no checks, counters still count).
    pub fn begin(active: bool) {
        SIM.with(|s| {
            let mut s = s.borrow_mut();
            s.reset();
            s.active = active;
        });
    }

    pub fn set_active(active: bool) {
        SIM.with(|s| s.borrow_mut().active = active);
    }

    /// Parent side of spawn / child side of exit: snapshot the caller's clock, then advance it.
    pub fn release_snapshot() -> Clock {
        SIM.with(|s| {
            let mut s = s.borrow_mut();
            let t = me();
            let c = s.clocks[t];
            s.clocks[t][t] += 1;
            c
        })
    }

    /// Child side of spawn / parent side of join.
    pub fn acquire(c: &Clock) {
        SIM.with(|s| {
            let mut s = s.borrow_mut();
            let t = me();
            for i in 0..MAX_TASKS {
                if c[i] > s.clocks[t][i] {
                    s.clocks[t][i] = c[i];
                }
            }
        });
    }

    /// Seam events performed so far by `task` (read by the scheduler for stall triggers).
    pub fn task_events(task: usize) -> u32 {
        SIM.with(|s| s.borrow().task_events[task])
    }

    /// Seam calls since `begin`, counted whether or not the monitor is active (the reference
    /// pass uses it to derive the step bound of the raced executions).
    pub fn seam_calls() -> u64 {
        SIM.with(|s| s.borrow().seam_calls)
    }

    pub fn n_events() -> usize {
        SIM.with(|s| s.borrow().events.len())
    }

    pub fn constructed() -> [[u32; N_SLOTS]; 2] {
        SIM.with(|s| s.borrow().constructed)
    }

    /// End of the execution: take everything the monitor recorded.
    pub fn take_report() -> Report {
        SIM.with(|s| {
            let mut s = s.borrow_mut();
            s.active = false;
            Report {
                events: std::mem::take(&mut s.events),
                races: std::mem::take(&mut s.races),
                double_constructs: std::mem::take(&mut s.double_constructs),
                constructed: s.constructed,
                task_events: s.task_events,
            }
        })
    }
}
