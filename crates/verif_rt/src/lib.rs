//! Seam between `cdshealpix`'s two lazily initialised tables and the verification engines.
//! Two mutually exclusive flavours, selected by a cargo feature of this crate (forwarded by the
//! shadow manifest of `cdshealpix`):
//!   * `sim`   -- engine B: shuttle coroutines, instrumented `Slots`/`Once`, happens-before monitor;
//!   * `count` -- engine A': real `std` primitives and plain arrays, construction counters only.

#[cfg(all(feature = "sim", feature = "count"))]
compile_error!("verif_rt: features `sim` and `count` are mutually exclusive");

#[cfg(feature = "sim")]
#[path = "sim.rs"]
mod sim_impl;
#[cfg(feature = "sim")]
pub use sim_impl::*;

#[cfg(feature = "count")]
#[path = "count.rs"]
mod count_impl;
#[cfg(feature = "count")]
pub use count_impl::*;
