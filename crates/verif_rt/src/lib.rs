//! Seam between `cdshealpix`'s lazily initialised state and the verification engines, AND a
//! facade for `std`: the guarded build of the crate contains `extern crate verif_rt as std;`, so
//! every `std::...` path in the code under test resolves through this crate.  Two mutually
//! exclusive flavours, selected by a cargo feature (forwarded by the shadow manifest):
//!   * `sim`   -- engine B: shuttle coroutines; `std::sync::Once`, `std::sync::atomic::*`,
//!                `Mutex`/`RwLock`/`Condvar`/`Barrier`, `std::thread::{yield_now, park, current, sleep}`
//!                and `std::hint::spin_loop` are replaced by models the simulator controls; the two
//!                tables are instrumented `Slots`; everything else is the real `std`;
//!   * `count` -- engine A': everything is the real `std` (pure re-export), plain arrays,
//!                construction counters only.

#[cfg(all(feature = "sim", feature = "count"))]
compile_error!("verif_rt: features `sim` and `count` are mutually exclusive");

// ---- the std facade: everything not overridden below is the real thing
pub use ::std::*;

#[cfg(feature = "sim")]
#[path = "sim.rs"]
mod sim_impl;
#[cfg(feature = "sim")]
pub use sim_impl::*;
#[cfg(feature = "sim")]
pub(crate) use sim_impl::sim_atomics_support_impl as sim_atomics_support;
#[cfg(feature = "sim")]
#[path = "atomics.rs"]
mod atomics_impl;

#[cfg(feature = "sim")]
pub mod sync {
    pub use ::std::sync::*;
    pub use super::sim_impl::Once;
    pub use shuttle::sync::{Barrier, Condvar, Mutex, MutexGuard, RwLock, RwLockReadGuard, RwLockWriteGuard};
    pub mod atomic {
        pub use super::super::atomics_impl::*;
    }
}

#[cfg(feature = "sim")]
pub mod thread {
    pub use ::std::thread::*;
    pub use shuttle::thread::{current, park, sleep, yield_now, Thread, ThreadId};
}

#[cfg(feature = "sim")]
pub mod hint {
    pub use ::std::hint::*;
    /// A spin-wait must let the simulator run the thread being waited for.
    pub fn spin_loop() {
        shuttle::thread::yield_now();
    }
}

#[cfg(feature = "count")]
#[path = "count.rs"]
mod count_impl;
#[cfg(feature = "count")]
pub use count_impl::*;
