//! Facade for `std::sync::atomic` in the guarded build of engine B.
//!
//! The guarded crate is compiled with `extern crate verif_rt as std;`, so every
//! `std::sync::atomic::AtomicX` the code under test declares -- in a `static`, inside `Layer`, in a
//! helper -- is one of these types.  Each operation is a scheduling point of the simulator (so
//! torn multi-word protocols built from several atomics can be interleaved between any two
//! operations), is logged as a seam event, and moves the monitor's vector clocks exactly as its
//! memory ordering prescribes: `Release`/`SeqCst` stores publish the writer's clock,
//! `Acquire`/`SeqCst` loads join it, read-modify-writes continue a release sequence, `Relaxed`
//! transfers nothing (so a `Relaxed` "ready flag" in front of a plain slot read is still reported
//! as an unordered access by the slot monitor).  The simulator itself is sequentially consistent:
//! stale values are engine A's job.
//!
//! State hygiene: every atomic remembers its initial value and the number of the execution that
//! last touched it; the first access in a later execution puts it back to its initial value.
//! Process-wide atomics therefore start every simulated execution pristine, exactly like the two
//! tables after `verif_reset()`.

use super::sim_atomics_support as sup;
use std::cell::Cell;
pub use std::sync::atomic::{compiler_fence, Ordering};

type Clock = super::Clock;

struct Core<T: Copy> {
    val: Cell<T>,
    init: T,
    epoch: Cell<u64>,
    clock: Cell<Clock>,
}

// All simulated threads are coroutines on one OS thread (see the crate docs).
unsafe impl<T: Copy> Sync for Core<T> {}
unsafe impl<T: Copy> Send for Core<T> {}
impl<T: Copy> std::panic::RefUnwindSafe for Core<T> {}

fn has_acquire(o: Ordering) -> bool {
    matches!(o, Ordering::Acquire | Ordering::AcqRel | Ordering::SeqCst)
}
fn has_release(o: Ordering) -> bool {
    matches!(o, Ordering::Release | Ordering::AcqRel | Ordering::SeqCst)
}

impl<T: Copy> Core<T> {
    const fn new(v: T) -> Core<T> {
        Core { val: Cell::new(v), init: v, epoch: Cell::new(0), clock: Cell::new([0; super::MAX_TASKS]) }
    }
    fn pre(&self) {
        sup::atomic_seam(self as *const Core<T> as usize);
        let e = sup::exec_epoch();
        if self.epoch.get() != e {
            self.val.set(self.init);
            self.clock.set([0; super::MAX_TASKS]);
            self.epoch.set(e);
        }
    }
    fn load(&self, o: Ordering) -> T {
        self.pre();
        if has_acquire(o) {
            sup::acquire(&self.clock.get());
        }
        self.val.get()
    }
    fn store(&self, v: T, o: Ordering) {
        self.pre();
        if has_release(o) {
            self.clock.set(sup::release());
        } else {
            // a relaxed store by anyone ends the release sequence
            self.clock.set([0; super::MAX_TASKS]);
        }
        self.val.set(v);
    }
    fn rmw<F: FnOnce(T) -> T>(&self, o: Ordering, f: F) -> T {
        self.pre();
        if has_acquire(o) {
            sup::acquire(&self.clock.get());
        }
        let old = self.val.get();
        self.val.set(f(old));
        if has_release(o) {
            let mine = sup::release();
            let mut c = self.clock.get();
            for i in 0..super::MAX_TASKS {
                if mine[i] > c[i] {
                    c[i] = mine[i];
                }
            }
            self.clock.set(c);
        }
        old
    }
    fn cas(&self, current: T, new: T, success: Ordering, failure: Ordering) -> Result<T, T>
    where
        T: PartialEq,
    {
        self.pre();
        let old = self.val.get();
        if old == current {
            if has_acquire(success) {
                sup::acquire(&self.clock.get());
            }
            self.val.set(new);
            if has_release(success) {
                let mine = sup::release();
                let mut c = self.clock.get();
                for i in 0..super::MAX_TASKS {
                    if mine[i] > c[i] {
                        c[i] = mine[i];
                    }
                }
                self.clock.set(c);
            }
            Ok(old)
        } else {
            if has_acquire(failure) {
                sup::acquire(&self.clock.get());
            }
            Err(old)
        }
    }
    fn get_mut(&mut self) -> &mut T {
        let e = sup::exec_epoch();
        if self.epoch.get() != e {
            self.val.set(self.init);
            self.epoch.set(e);
        }
        self.val.get_mut()
    }
}

/// An atomic fence: approximated by an acquire + release on one global clock (over-synchronises
/// a little, i.e. may hide a race from engine B only; engine A models fences exactly).
pub fn fence(o: Ordering) {
    sup::fence(has_acquire(o) || o == Ordering::SeqCst, has_release(o) || o == Ordering::SeqCst);
}

macro_rules! atomic_int {
    ($name:ident, $t:ty) => {
        pub struct $name(Core<$t>);
        impl $name {
            pub const fn new(v: $t) -> Self { $name(Core::new(v)) }
            pub fn load(&self, o: Ordering) -> $t { self.0.load(o) }
            pub fn store(&self, v: $t, o: Ordering) { self.0.store(v, o) }
            pub fn swap(&self, v: $t, o: Ordering) -> $t { self.0.rmw(o, |_| v) }
            pub fn compare_exchange(&self, c: $t, n: $t, s: Ordering, f: Ordering) -> Result<$t, $t> { self.0.cas(c, n, s, f) }
            pub fn compare_exchange_weak(&self, c: $t, n: $t, s: Ordering, f: Ordering) -> Result<$t, $t> { self.0.cas(c, n, s, f) }
            #[allow(deprecated)]
            pub fn compare_and_swap(&self, c: $t, n: $t, o: Ordering) -> $t { match self.0.cas(c, n, o, Ordering::Relaxed) { Ok(x) | Err(x) => x } }
            pub fn fetch_add(&self, v: $t, o: Ordering) -> $t { self.0.rmw(o, |x| x.wrapping_add(v)) }
            pub fn fetch_sub(&self, v: $t, o: Ordering) -> $t { self.0.rmw(o, |x| x.wrapping_sub(v)) }
            pub fn fetch_and(&self, v: $t, o: Ordering) -> $t { self.0.rmw(o, |x| x & v) }
            pub fn fetch_nand(&self, v: $t, o: Ordering) -> $t { self.0.rmw(o, |x| !(x & v)) }
            pub fn fetch_or(&self, v: $t, o: Ordering) -> $t { self.0.rmw(o, |x| x | v) }
            pub fn fetch_xor(&self, v: $t, o: Ordering) -> $t { self.0.rmw(o, |x| x ^ v) }
            pub fn fetch_max(&self, v: $t, o: Ordering) -> $t { self.0.rmw(o, |x| if v > x { v } else { x }) }
            pub fn fetch_min(&self, v: $t, o: Ordering) -> $t { self.0.rmw(o, |x| if v < x { v } else { x }) }
            pub fn fetch_update<F: FnMut($t) -> Option<$t>>(&self, s: Ordering, f: Ordering, mut g: F) -> Result<$t, $t> {
                let mut prev = self.load(f);
                while let Some(next) = g(prev) {
                    match self.compare_exchange_weak(prev, next, s, f) {
                        x @ Ok(_) => return x,
                        Err(p) => prev = p,
                    }
                }
                Err(prev)
            }
            pub fn get_mut(&mut self) -> &mut $t { self.0.get_mut() }
            pub fn into_inner(mut self) -> $t { *self.0.get_mut() }
        }
        impl Default for $name { fn default() -> Self { $name::new(Default::default()) } }
        impl From<$t> for $name { fn from(v: $t) -> Self { $name::new(v) } }
        impl std::fmt::Debug for $name {
            fn fmt(&self, f: &mut std::fmt::Formatter<'_>) -> std::fmt::Result { write!(f, "{}({:?})", stringify!($name), self.0.val.get()) }
        }
    };
}

atomic_int!(AtomicU8, u8);
atomic_int!(AtomicU16, u16);
atomic_int!(AtomicU32, u32);
atomic_int!(AtomicU64, u64);
atomic_int!(AtomicUsize, usize);
atomic_int!(AtomicI8, i8);
atomic_int!(AtomicI16, i16);
atomic_int!(AtomicI32, i32);
atomic_int!(AtomicI64, i64);
atomic_int!(AtomicIsize, isize);

pub struct AtomicBool(Core<bool>);
impl AtomicBool {
    pub const fn new(v: bool) -> Self { AtomicBool(Core::new(v)) }
    pub fn load(&self, o: Ordering) -> bool { self.0.load(o) }
    pub fn store(&self, v: bool, o: Ordering) { self.0.store(v, o) }
    pub fn swap(&self, v: bool, o: Ordering) -> bool { self.0.rmw(o, |_| v) }
    pub fn compare_exchange(&self, c: bool, n: bool, s: Ordering, f: Ordering) -> Result<bool, bool> { self.0.cas(c, n, s, f) }
    pub fn compare_exchange_weak(&self, c: bool, n: bool, s: Ordering, f: Ordering) -> Result<bool, bool> { self.0.cas(c, n, s, f) }
    #[allow(deprecated)]
    pub fn compare_and_swap(&self, c: bool, n: bool, o: Ordering) -> bool { match self.0.cas(c, n, o, Ordering::Relaxed) { Ok(x) | Err(x) => x } }
    pub fn fetch_and(&self, v: bool, o: Ordering) -> bool { self.0.rmw(o, |x| x & v) }
    pub fn fetch_nand(&self, v: bool, o: Ordering) -> bool { self.0.rmw(o, |x| !(x & v)) }
    pub fn fetch_or(&self, v: bool, o: Ordering) -> bool { self.0.rmw(o, |x| x | v) }
    pub fn fetch_xor(&self, v: bool, o: Ordering) -> bool { self.0.rmw(o, |x| x ^ v) }
    pub fn fetch_not(&self, o: Ordering) -> bool { self.0.rmw(o, |x| !x) }
    pub fn fetch_update<F: FnMut(bool) -> Option<bool>>(&self, s: Ordering, f: Ordering, mut g: F) -> Result<bool, bool> {
        let mut prev = self.load(f);
        while let Some(next) = g(prev) {
            match self.compare_exchange_weak(prev, next, s, f) {
                x @ Ok(_) => return x,
                Err(p) => prev = p,
            }
        }
        Err(prev)
    }
    pub fn get_mut(&mut self) -> &mut bool { self.0.get_mut() }
    pub fn into_inner(mut self) -> bool { *self.0.get_mut() }
}
impl Default for AtomicBool { fn default() -> Self { AtomicBool::new(false) } }
impl From<bool> for AtomicBool { fn from(v: bool) -> Self { AtomicBool::new(v) } }
impl std::fmt::Debug for AtomicBool {
    fn fmt(&self, f: &mut std::fmt::Formatter<'_>) -> std::fmt::Result { write!(f, "AtomicBool({:?})", self.0.val.get()) }
}

pub struct AtomicPtr<T>(Core<*mut T>);
unsafe impl<T> Sync for AtomicPtr<T> {}
unsafe impl<T> Send for AtomicPtr<T> {}
impl<T> AtomicPtr<T> {
    pub const fn new(v: *mut T) -> Self { AtomicPtr(Core::new(v)) }
    pub fn load(&self, o: Ordering) -> *mut T { self.0.load(o) }
    pub fn store(&self, v: *mut T, o: Ordering) { self.0.store(v, o) }
    pub fn swap(&self, v: *mut T, o: Ordering) -> *mut T { self.0.rmw(o, |_| v) }
    pub fn compare_exchange(&self, c: *mut T, n: *mut T, s: Ordering, f: Ordering) -> Result<*mut T, *mut T> { self.0.cas(c, n, s, f) }
    pub fn compare_exchange_weak(&self, c: *mut T, n: *mut T, s: Ordering, f: Ordering) -> Result<*mut T, *mut T> { self.0.cas(c, n, s, f) }
    #[allow(deprecated)]
    pub fn compare_and_swap(&self, c: *mut T, n: *mut T, o: Ordering) -> *mut T { match self.0.cas(c, n, o, Ordering::Relaxed) { Ok(x) | Err(x) => x } }
    pub fn fetch_update<F: FnMut(*mut T) -> Option<*mut T>>(&self, s: Ordering, f: Ordering, mut g: F) -> Result<*mut T, *mut T> {
        let mut prev = self.load(f);
        while let Some(next) = g(prev) {
            match self.compare_exchange_weak(prev, next, s, f) {
                x @ Ok(_) => return x,
                Err(p) => prev = p,
            }
        }
        Err(prev)
    }
    pub fn get_mut(&mut self) -> &mut *mut T { self.0.get_mut() }
    pub fn into_inner(mut self) -> *mut T { *self.0.get_mut() }
}
impl<T> Default for AtomicPtr<T> { fn default() -> Self { AtomicPtr::new(std::ptr::null_mut()) } }
impl<T> From<*mut T> for AtomicPtr<T> { fn from(v: *mut T) -> Self { AtomicPtr::new(v) } }
impl<T> std::fmt::Debug for AtomicPtr<T> {
    fn fmt(&self, f: &mut std::fmt::Formatter<'_>) -> std::fmt::Result { write!(f, "AtomicPtr({:?})", self.0.val.get()) }
}
