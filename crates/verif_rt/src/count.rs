//! "Counting" flavour of the seam (feature `count`): everything is the REAL thing -- `Once` is
//! `std::sync::Once`, the tables are plain `[Option<T>; 30]` arrays (so `TABLE[i]` stays a place
//! expression and no reference to the whole table is ever formed) -- and `constructing` only
//! bumps a `Relaxed` atomic counter (a relaxed RMW creates no happens-before edge, so it cannot
//! mask a race).  Used by engine A' (the guarded build interpreted by Miri on real threads) to
//! check "each depth is constructed exactly once" for ANY implementation shape, including
//! refactors away from the hooked statics, which engine B cannot follow.

use std::sync::atomic::{AtomicU32, Ordering::Relaxed};

pub use std::sync::Once;

pub const N_SLOTS: usize = 30;
pub const TABLE_LAYERS: u8 = 0;
pub const TABLE_CSTS: u8 = 1;

pub type Slots<T> = [Option<T>; N_SLOTS];

pub const fn new_slots<T>(_table: u8) -> Slots<T> {
    [const { None }; N_SLOTS]
}

pub fn reset_slots<T>(slots: &mut Slots<T>) {
    for s in slots.iter_mut() {
        *s = None;
    }
}

static COUNTS: [[AtomicU32; N_SLOTS]; 2] = [const { [const { AtomicU32::new(0) }; N_SLOTS] }; 2];

pub fn constructing(table: u8, depth: u8) {
    if (table as usize) < 2 && (depth as usize) < N_SLOTS {
        COUNTS[table as usize][depth as usize].fetch_add(1, Relaxed);
    }
}

/// Constructions so far, per (table, depth).
pub fn counts() -> [[u32; N_SLOTS]; 2] {
    let mut out = [[0u32; N_SLOTS]; 2];
    for t in 0..2 {
        for d in 0..N_SLOTS {
            out[t][d] = COUNTS[t][d].load(Relaxed);
        }
    }
    out
}
