fn main() {
    println!("cargo:rustc-cfg=cdshealpix_verif");
    println!("cargo:rustc-check-cfg=cfg(cdshealpix_verif)");
    println!("cargo:rerun-if-changed=build.rs");
}
