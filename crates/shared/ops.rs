// Execution of one scenario `Op` against the real `cdshealpix` public API.
//
// Included with `#[path]` by both engines, so that each engine runs it against *its* build of
// the library (engine A: shipped code, guard off; engine B: same sources, guard on).
//
// The outcome of an op is a 64-bit digest of the bit patterns of everything it returns
// (floats via `to_bits`), or the panic message if it panicked.  Every op is a pure function of
// its arguments, so the outcome observed by a racing thread must equal the outcome of the same
// op executed alone (oracle I1 / H3).

use c20common::{Digest, Op};
use std::panic::{catch_unwind, AssertUnwindSafe};

#[derive(Clone, Debug, PartialEq, Eq)]
pub struct Outcome {
    /// digest of the returned values (0 when panicked)
    pub digest: u64,
    /// address of the `&'static Layer` for `L` ops, 0 otherwise
    pub ptr: usize,
    /// panic message when the op panicked
    pub panic: Option<String>,
}

fn bmoc_digest(dg: &mut Digest, b: &cdshealpix::nested::bmoc::BMOC) {
    dg.u64(b.get_depth_max() as u64);
    dg.u64(b.entries.len() as u64);
    for e in b.entries.iter() {
        dg.u64(*e);
    }
}

fn run(op: &Op) -> (u64, usize) {
    use cdshealpix::nested;
    let mut dg = Digest::new();
    let mut ptr = 0usize;
    match op {
        Op::L { d } => {
            let l = nested::get_or_create(*d);
            ptr = l as *const nested::Layer as usize;
            dg.u64(l.depth() as u64);
            dg.u64(l.n_hash());
        }
        Op::H { d, lon, lat } => dg.u64(nested::hash(*d, *lon, *lat)),
        Op::G { d, h } => {
            let (lon, lat) = nested::center(*d, *h);
            dg.f64(lon);
            dg.f64(lat);
            for (vl, vb) in nested::vertices(*d, *h).iter() {
                dg.f64(*vl);
                dg.f64(*vb);
            }
            let (hh, dx, dy) = nested::hash_with_dxdy(*d, lon, lat);
            dg.u64(hh);
            dg.f64(dx);
            dg.f64(dy);
            // the remaining per-cell accessors of the convenience API
            let (sl, sb) = nested::sph_coo(*d, *h, 0.3, 0.7);
            dg.f64(sl);
            dg.f64(sb);
            for (gl, gb) in nested::grid(*d, *h, 2).iter() {
                dg.f64(*gl);
                dg.f64(*gb);
            }
            for (pl, pb) in nested::path_along_cell_edge(*d, *h, &cdshealpix::compass_point::Cardinal::S, false, 2).iter() {
                dg.f64(*pl);
                dg.f64(*pb);
            }
            for (pl, pb) in nested::path_along_cell_side(*d, *h, &cdshealpix::compass_point::Cardinal::S, &cdshealpix::compass_point::Cardinal::E, true, 2).iter() {
                dg.f64(*pl);
                dg.f64(*pb);
            }
            let (vl, vb) = nested::get_or_create(*d).vertex(*h, cdshealpix::compass_point::Cardinal::N);
            dg.f64(vl);
            dg.f64(vb);
            {
                use cdshealpix::compass_point::{Cardinal, CardinalSet};
                let l = nested::get_or_create(*d);
                let mut set = CardinalSet::new();
                set.set(Cardinal::E, true);
                set.set(Cardinal::W, true);
                let vm = l.vertices_map(*h, set);
                for c in [Cardinal::S, Cardinal::E, Cardinal::N, Cardinal::W] {
                    match vm.get(c) {
                        Some((a, b)) => { dg.f64(*a); dg.f64(*b); }
                        None => dg.u64(u64::MAX),
                    }
                }
                let (px, py) = l.center_of_projected_cell(*h);
                dg.f64(px);
                dg.f64(py);
                dg.u64(l.hash_v1(lon, lat));
                dg.u64(l.hash_v2(lon, lat));
                dg.u64(l.to_uniq(*h));
                dg.u64(l.to_uniq_ivoa(*h));
                let (h2, dx2, dy2) = l.hash_dxdy_v2(lon, lat);
                dg.u64(h2);
                dg.f64(dx2);
                dg.f64(dy2);
            }
            dg.u64(nested::n_hash(*d));
        }
        Op::N { d, h } => {
            let m = nested::neighbours(*d, *h, true);
            for v in m.values_vec() {
                dg.u64(v);
            }
            dg.u64(u64::MAX);
            for v in m.sorted_values_vec() {
                dg.u64(v);
            }
            // the single-direction accessor and the variant without the centre
            use cdshealpix::compass_point::MainWind;
            let l = nested::get_or_create(*d);
            for dir in [MainWind::N, MainWind::SE, MainWind::W] {
                dg.u64(l.neighbour(*h, dir).unwrap_or(u64::MAX));
            }
            for v in nested::neighbours(*d, *h, false).values_vec() {
                dg.u64(v);
            }
        }
        Op::K { d, lon, lat, r } => {
            let b = nested::cone_coverage_approx(*d, *lon, *lat, *r);
            bmoc_digest(&mut dg, &b);
            if b.entries.len() <= 48 {
                // the flat entry point, for small results only (it redoes the whole query)
                for v in nested::cone_coverage_approx_flat(*d, *lon, *lat, *r).iter() {
                    dg.u64(*v);
                }
            }
        }
        Op::Kc { d, dd, lon, lat, r } => bmoc_digest(&mut dg, &nested::cone_coverage_approx_custom(*d, *dd, *lon, *lat, *r)),
        Op::E { d, lon, lat, a, b, pa } => bmoc_digest(&mut dg, &nested::elliptical_cone_coverage(*d, *lon, *lat, *a, *b, *pa)),
        Op::Ec { d, dd, lon, lat, a, b, pa } => bmoc_digest(&mut dg, &nested::elliptical_cone_coverage_custom(*d, *dd, *lon, *lat, *a, *b, *pa)),
        Op::P { d, verts, exact } => bmoc_digest(&mut dg, &nested::polygon_coverage(*d, verts, *exact)),
        Op::X { d, h, dd } => {
            for v in nested::external_edge_sorted(*d, *h, *dd).iter() {
                dg.u64(*v);
            }
            dg.u64(u64::MAX);
            for v in nested::external_edge(*d, *h, *dd).iter() {
                dg.u64(*v);
            }
            if *d + *dd < 29 {
                for v in nested::internal_edge_sorted(*d, *h, *dd).iter() {
                    dg.u64(*v);
                }
                dg.u64(u64::MAX);
                // the unsorted walk (closed path S -> E -> N -> W), a different code path
                for v in nested::internal_edge(*d, *h, *dd).iter() {
                    dg.u64(*v);
                }
            }
            let st = nested::external_edge_struct(*d, *h, *dd);
            for c in [cdshealpix::compass_point::Cardinal::S, cdshealpix::compass_point::Cardinal::N] {
                dg.u64(st.get_corner(&c).unwrap_or(u64::MAX));
            }
            for v in st.get_edge(&cdshealpix::compass_point::Ordinal::SE).iter() {
                dg.u64(*v);
            }
        }
        Op::B { d, lon, lat } => {
            for (h, w) in nested::bilinear_interpolation(*d, *lon, *lat).iter() {
                dg.u64(*h);
                dg.f64(*w);
            }
        }
        Op::R { d, h } => {
            let l = nested::get_or_create(*d);
            let r = l.to_ring(*h);
            dg.u64(r);
            dg.u64(l.from_ring(r));
            // the free uniq functions (they go through get_or_create as well)
            let u = nested::to_uniq(*d, *h);
            dg.u64(u);
            let (ud, uh) = nested::from_uniq(u);
            dg.u64(ud as u64);
            dg.u64(uh);
            let ui = nested::to_uniq_ivoa(*d, *h);
            dg.u64(ui);
            let (ud, uh) = nested::from_uniq_ivoa(ui);
            dg.u64(ud as u64);
            dg.u64(uh);
        }
        Op::V { d, lon, lat, r } => match r {
            Some(r) => dg.f64(cdshealpix::largest_center_to_vertex_distance_with_radius(*d, *lon, *lat, *r)),
            None => dg.f64(cdshealpix::largest_center_to_vertex_distance(*d, *lon, *lat)),
        },
        Op::W { from, to, lon, lat, r } => {
            for v in cdshealpix::largest_center_to_vertex_distances_with_radius(*from, *to, *lon, *lat, *r).iter() {
                dg.f64(*v);
            }
        }
        Op::Vx { d, n, lon, lat } => {
            for i in 0..*n {
                dg.f64(cdshealpix::largest_center_to_vertex_distance(*d, *lon + 1e-3 * i as f64, *lat));
            }
        }
        Op::Hx { d, n, lon, lat } => {
            for i in 0..*n {
                dg.u64(nested::hash(*d, *lon + 1e-3 * i as f64, *lat));
            }
        }
        Op::Zh { d, lon } => dg.u64(nested::hash(*d, *lon, 2.0)),
        Op::Zd { lon } => dg.u64(nested::hash(30, *lon, 0.5)),
        Op::Zc { d } => {
            let (lon, lat) = nested::center(*d, c20common::n_hash(*d));
            dg.f64(lon);
            dg.f64(lat);
        }
    }
    (dg.finish(), ptr)
}

fn panic_message(e: Box<dyn std::any::Any + Send>) -> String {
    if let Some(s) = e.downcast_ref::<&'static str>() {
        (*s).to_string()
    } else if let Some(s) = e.downcast_ref::<String>() {
        s.clone()
    } else {
        "<non-string panic payload>".to_string()
    }
}

/// Execute `op`, catching any panic (the caller "crashes", the process survives).
pub fn exec(op: &Op) -> Outcome {
    match catch_unwind(AssertUnwindSafe(|| run(op))) {
        Ok((digest, ptr)) => Outcome { digest, ptr, panic: None },
        Err(e) => Outcome { digest: 0, ptr: 0, panic: Some(first_line(&panic_message(e))) },
    }
}

fn first_line(s: &str) -> String {
    let l = s.lines().next().unwrap_or("");
    if l.len() > 200 { l[..200].to_string() } else { l.to_string() }
}
