//! Engine A harness: `sima <encoded scenario>`.
//!
//! Real `std::thread`s, real `std::sync::Once`, the real `static mut` tables.  Run under
//! `cargo +nightly miri run` with `-Zmiri-seed=<s>`: Miri's PRNG then decides every
//! pre-emption, every blocked-thread pick and every weak-memory choice, and its vector-clock
//! detector reports unordered conflicting accesses.  Also runs natively (smoke test only; the
//! native schedule is not controlled and is never used as evidence).
//!
//! Hygiene: racing threads share nothing that synchronises except the start barrier; the
//! sequence counter and the "line threads done" counter are `Relaxed` (no happens-before edge,
//! so they cannot mask a race); nothing is printed from inside a racing thread.

use c20common::*;
use std::sync::atomic::{AtomicU64, AtomicUsize, Ordering::Relaxed};
use std::sync::{Arc, Barrier};

#[path = "../../shared/ops.rs"]
mod ops;
use ops::{exec, Outcome};

static SEQ: AtomicU64 = AtomicU64::new(0);
static LINE_DONE: AtomicUsize = AtomicUsize::new(0);

struct Rec {
    entry: u64,
    exit: u64,
    out: Outcome,
}

fn fmt_out(o: &Outcome) -> String {
    match &o.panic {
        Some(m) => format!("digest=- ptr=- panic={:?}", m),
        None => format!("digest={:016x} ptr={:x} panic=-", o.digest, o.ptr),
    }
}

#[cfg(feature = "count")]
fn check_counts(violations: &mut Vec<String>, when: &str) {
    let c = verif_rt::counts();
    let mut total = 0;
    for (t, name) in [(0usize, "LAYERS"), (1usize, "CSTS_C2V")] {
        for d in 0..30 {
            total += c[t][d];
            if c[t][d] > 1 {
                violations.push(format!("class=double-construct detail=\"{}[{}] constructed {} times ({})\"", name, d, c[t][d], when));
            }
        }
    }
    println!("COUNTS {} constructions {}", total, when);
}

fn main() {
    let args: Vec<String> = std::env::args().collect();
    if args.len() >= 3 && args[1] == "--refs" {
        // Independent single-threaded reference: every op of every given scenario executed by the
        // main thread of THIS process, one after the other.  No thread is ever spawned, so no
        // object can have been corrupted by a race while it was being constructed; the driver
        // compares what racing threads of OTHER processes observed with these outcomes.
        std::panic::set_hook(Box::new(|_| {}));
        for (k, a) in args[2..].iter().enumerate() {
            let sc = match decode(a) {
                Ok(s) => s,
                Err(e) => {
                    eprintln!("HARNESS-ERROR: cannot decode scenario: {}", e);
                    std::process::exit(2);
                }
            };
            for (ti, t) in sc.threads.iter().enumerate() {
                for (oi, op) in t.ops.iter().enumerate() {
                    let o = exec(op);
                    println!("SEQ k={} t={} i={} {}", k, ti, oi, fmt_out(&Outcome { ptr: 0, ..o }));
                }
            }
        }
        println!("SEQ-DONE {}", args.len() - 2);
        return;
    }
    if args.len() != 2 {
        eprintln!("HARNESS-ERROR: usage: sima <encoded scenario>");
        std::process::exit(2);
    }
    let sc = match decode(&args[1]) {
        Ok(s) => s,
        Err(e) => {
            eprintln!("HARNESS-ERROR: cannot decode scenario: {}", e);
            std::process::exit(2);
        }
    };
    // crashing callers are part of the workload: keep their panics quiet
    std::panic::set_hook(Box::new(|_| {}));

    let n_line = sc.threads.iter().filter(|t| t.start == Start::Line).count();
    let barrier = Arc::new(Barrier::new(n_line));
    let mut handles = Vec::new();
    for t in sc.threads.iter() {
        let ops_t = t.ops.clone();
        let start = t.start;
        let barrier = barrier.clone();
        handles.push(std::thread::spawn(move || {
            match start {
                Start::Line => {
                    barrier.wait();
                }
                Start::Late => {
                    // no synchronisation edge: Relaxed polling only
                    while LINE_DONE.load(Relaxed) < n_line {
                        std::thread::yield_now();
                    }
                }
            }
            let mut recs = Vec::with_capacity(ops_t.len());
            for op in ops_t.iter() {
                let entry = SEQ.fetch_add(1, Relaxed);
                let out = exec(op);
                let exit = SEQ.fetch_add(1, Relaxed);
                recs.push(Rec { entry, exit, out });
            }
            if start == Start::Line {
                LINE_DONE.fetch_add(1, Relaxed);
            }
            recs
        }));
    }
    let mut all: Vec<Vec<Rec>> = Vec::new();
    let mut harness_panic = false;
    for h in handles {
        match h.join() {
            Ok(r) => all.push(r),
            Err(_) => {
                harness_panic = true;
                all.push(Vec::new());
            }
        }
    }

    // ---- post-quiescence: sequential reference (H3) and oracles ----
    let mut violations: Vec<String> = Vec::new();
    // engine A' only (guarded "count" build): constructions per (table, depth) so far
    #[cfg(feature = "count")]
    check_counts(&mut violations, "after the last join");
    if harness_panic {
        violations.push("class=unexpected-panic detail=\"a caller thread died outside an op\"".to_string());
    }
    let mut sig = Digest::new();
    let mut first_ptr: [usize; 30] = [0; 30];
    println!("A-RUN threads={} line={} ops={}", sc.threads.len(), n_line, sc.n_ops());
    for (ti, t) in sc.threads.iter().enumerate() {
        for (oi, op) in t.ops.iter().enumerate() {
            if oi >= all[ti].len() {
                break;
            }
            let rec = &all[ti][oi];
            sig.u64(ti as u64);
            sig.u64(oi as u64);
            sig.u64(rec.entry);
            sig.u64(rec.exit);
            println!("OP t={} i={} kind={} entry={} exit={} {}", ti, oi, op.kind(), rec.entry, rec.exit, fmt_out(&rec.out));
            let reference = exec(op);
            println!("REF t={} i={} {}", ti, oi, fmt_out(&reference));
            if rec.out.panic != reference.panic {
                violations.push(format!(
                    "class=unexpected-panic thread={} op={} detail=\"raced: {:?} sequential: {:?}\"",
                    ti, oi, rec.out.panic, reference.panic
                ));
            } else if rec.out.digest != reference.digest {
                violations.push(format!(
                    "class=wrong-result thread={} op={} detail=\"{} raced digest {:016x} != sequential {:016x}\"",
                    ti, oi, describe_op(op), rec.out.digest, reference.digest
                ));
            }
            if let Op::L { d } = op {
                if rec.out.panic.is_none() {
                    if rec.out.ptr != reference.ptr {
                        violations.push(format!(
                            "class=different-object thread={} op={} detail=\"depth {} raced ptr {:x} != sequential {:x}\"",
                            ti, oi, d, rec.out.ptr, reference.ptr
                        ));
                    }
                    let fp = &mut first_ptr[*d as usize];
                    if *fp == 0 {
                        *fp = rec.out.ptr;
                    } else if *fp != rec.out.ptr {
                        violations.push(format!(
                            "class=different-object thread={} op={} detail=\"depth {} two threads got {:x} and {:x}\"",
                            ti, oi, d, *fp, rec.out.ptr
                        ));
                    }
                }
            }
        }
    }
    #[cfg(feature = "count")]
    check_counts(&mut violations, "after the sequential re-execution");
    println!("SIG {:016x}", sig.finish());
    if violations.is_empty() {
        println!("VERDICT ok");
    } else {
        for v in &violations {
            println!("VERDICT violation {}", v);
        }
        std::process::exit(3);
    }
}
