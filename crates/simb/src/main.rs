//! Engine B: shuttle-based deterministic simulator over the guarded build of `cdshealpix`.
//!
//! Caller threads are shuttle coroutines on one OS thread; `std::sync::Once` is replaced by
//! `verif_rt::Once` (shuttle's model + our vector clocks) and the two `static mut` tables by
//! `verif_rt::Slots`, whose `Index`/`IndexMut` are scheduling points feeding a happens-before
//! monitor.  Our own `Scheduler` (seeded random / sticky-random / PCT-style priorities) decides
//! every interleaving, injects stall and late-join faults, and records the schedule so that a
//! run is replayable from (scenario, schedule) alone.
//!
//! Sub-commands (all output is one JSON object on stdout):
//!   simb batch  <verif_seed> <worker> <nworkers> <first_scenario> <n_scenarios> <scheds> <profile> <sigfile|->
//!   simb replay <scenario> <schedule csv | -> [policy seed]     exit 1 if a violation reproduces
//!   simb search <scenario> <seed> <n_schedules> <class|any>     exit 1 if a violation is found
//!   simb merge  <sigfile>...                                    distinct signature counts

use c20common::*;
use shuttle::scheduler::{Schedule, Scheduler, Task, TaskId};
use std::cell::RefCell;
use std::collections::HashSet;
use std::fmt::Write as _;
use std::sync::Arc;

#[path = "../../shared/ops.rs"]
mod ops;
use ops::{exec, Outcome};

use verif_rt::{Kind, Report, MAX_TASKS, N_SLOTS};

const ENGINE_TAG: u64 = 0xB;
const MAX_STEPS: usize = 20_000_000;
const STACK_SIZE: usize = 1 << 20;
/// longest run of consecutive steps a task may get while others are runnable
const FAIR_RUN: usize = 96;

// ------------------------------------------------------------------------------------------
// Scheduler
// ------------------------------------------------------------------------------------------

#[derive(Clone, Debug, PartialEq)]
enum Policy {
    Random,
    /// keep running the current task with probability `stay`/16
    Sticky { stay: u64 },
    /// PCT-style: random priorities, `depth - 1` priority change points
    Pct { depth: usize },
    /// follow the list; tolerant (see `pick_replay`)
    Replay(Vec<u8>),
}

impl Policy {
    fn name(&self) -> String {
        match self {
            Policy::Random => "random".into(),
            Policy::Sticky { stay } => format!("sticky{}", stay),
            Policy::Pct { depth } => format!("pct{}", depth),
            Policy::Replay(_) => "replay".into(),
        }
    }
}

#[derive(Clone, Debug, Default)]
struct StallState {
    task: usize,
    at_event: u32,
    steps: u32,
    triggered: bool,
    remaining: u32,
    /// the stalled task was runnable and another task ran instead at least once
    fired: bool,
    /// what the stalled task was about to do when it was stalled (seam event kind index)
    cut_short: bool,
}

/// State shared (same OS thread) between the scheduler, the execution closure and the threads.
struct Engine {
    // --- per execution, set by the driver loop before the execution starts
    policy: Policy,
    rng: Rng,
    stalls: Vec<StallState>,
    late: [bool; MAX_TASKS],
    n_threads: usize,
    est_len: usize,
    // --- per execution, maintained while it runs
    schedule: Vec<u8>,
    steps: usize,
    spawning_done: bool,
    thread_done: [bool; MAX_TASKS],
    prio: [i64; MAX_TASKS],
    low_prio: i64,
    change_points: Vec<usize>,
    late_released_step: Option<usize>,
    late_forced: bool,
    last_chosen: Option<usize>,
    consecutive: usize,
    must_yield: bool,
    // outcomes observed by the racing threads: [thread][op] = (outcome, event index at return)
    observed: Vec<Vec<Option<(Outcome, usize)>>>,
    // --- per scenario
    reference: Vec<Vec<Outcome>>,
    ref_constructed: [[u32; N_SLOTS]; 2],
    /// step bound of a raced execution, derived from the seam calls of the reference pass
    max_steps: usize,
    // --- result of the last execution
    last: Option<ExecResult>,
}

impl Engine {
    fn new() -> Engine {
        Engine {
            policy: Policy::Random,
            rng: Rng::new(0),
            stalls: Vec::new(),
            late: [false; MAX_TASKS],
            n_threads: 0,
            est_len: 40,
            schedule: Vec::new(),
            steps: 0,
            spawning_done: false,
            thread_done: [false; MAX_TASKS],
            prio: [0; MAX_TASKS],
            low_prio: 0,
            change_points: Vec::new(),
            late_released_step: None,
            late_forced: false,
            last_chosen: None,
            consecutive: 0,
            must_yield: false,
            observed: Vec::new(),
            reference: Vec::new(),
            ref_constructed: [[0; N_SLOTS]; 2],
            max_steps: MAX_STEPS,
            last: None,
        }
    }
}

thread_local! {
    static ENGINE: RefCell<Engine> = RefCell::new(Engine::new());
    /// Progress marker file (one fixed-size record, rewritten in place): lets the driver tell,
    /// after a worker died on a signal (abort on a failed allocation, stack overflow, SIGSEGV in
    /// the simulated code), which scenario / execution it was running.
    static PROGRESS: RefCell<Option<std::fs::File>> = const { RefCell::new(None) };
}

fn progress_open(path: &str) {
    if path != "-" {
        if let Ok(f) = std::fs::OpenOptions::new().create(true).write(true).truncate(true).open(path) {
            PROGRESS.with(|p| *p.borrow_mut() = Some(f));
        }
    }
}

fn progress(phase: &str, scenario_index: u64, scenario_seed: u64, k: u64) {
    use std::os::unix::fs::FileExt;
    PROGRESS.with(|p| {
        if let Some(f) = p.borrow().as_ref() {
            let rec = format!("{:<3} {:>20} {:>20} {:>10}\n", phase, scenario_index, scenario_seed, k);
            let _ = f.write_all_at(rec.as_bytes(), 0);
        }
    });
}

struct SimScheduler {
    remaining: usize,
}

impl Scheduler for SimScheduler {
    fn new_execution(&mut self) -> Option<Schedule> {
        if self.remaining == 0 {
            return None;
        }
        self.remaining -= 1;
        Some(Schedule::new(0))
    }

    fn next_task(&mut self, runnable: &[&Task], current: Option<TaskId>, is_yielding: bool) -> Option<TaskId> {
        ENGINE.with(|e| {
            let mut e = e.borrow_mut();
            let e = &mut *e;
            let ids: Vec<usize> = runnable.iter().map(|t| usize::from(t.id())).collect();
            let cur = current.map(usize::from);
            // Fairness (the step bound is a liveness oracle, and liveness claims are only valid
            // under fair schedules): a task that yields (yield_now / spin_loop / a spin-wait) or
            // that has been running for FAIR_RUN consecutive steps lets somebody else run.
            if cur.is_some() && cur == e.last_chosen {
                e.consecutive += 1;
            } else {
                e.consecutive = 0;
            }
            e.must_yield = is_yielding || e.consecutive >= FAIR_RUN;
            let chosen = pick(e, &ids, cur);
            e.last_chosen = Some(chosen);
            e.schedule.push(chosen as u8);
            e.steps += 1;
            Some(TaskId::from(chosen))
        })
    }

    fn next_u64(&mut self) -> u64 {
        ENGINE.with(|e| e.borrow_mut().rng.next_u64())
    }
}

fn pick(e: &mut Engine, ids: &[usize], cur: Option<usize>) -> usize {
    debug_assert!(!ids.is_empty());
    if let Policy::Replay(list) = &e.policy {
        return pick_replay(list, e.steps, ids, cur);
    }
    // start line: the main task spawns every thread before any of them runs
    if !e.spawning_done && ids.contains(&0) {
        return 0;
    }
    // stall triggers (task = thread index + 1)
    for st in e.stalls.iter_mut() {
        if !st.triggered && verif_rt::sim::task_events(st.task) >= st.at_event {
            st.triggered = true;
            st.remaining = st.steps;
        }
    }
    // late joiners are released once every line thread has finished
    let all_line_done = (0..e.n_threads).all(|ti| e.late[ti + 1] || e.thread_done[ti + 1]);
    if all_line_done && e.late_released_step.is_none() {
        e.late_released_step = Some(e.steps);
    }
    let mut eligible: Vec<usize> = Vec::with_capacity(ids.len());
    for &id in ids {
        let stalled = e.stalls.iter().any(|st| st.task == id && st.triggered && st.remaining > 0);
        let held_late = id < MAX_TASKS && e.late[id] && !all_line_done;
        if !stalled && !held_late {
            eligible.push(id);
        }
    }
    if eligible.is_empty() {
        // nothing else can run: a stall ends early / a late joiner is forced in (e.g. deadlock
        // avoidance when every line thread is blocked) -- never starve the system.
        for st in e.stalls.iter_mut() {
            if st.triggered && st.remaining > 0 && ids.contains(&st.task) {
                st.cut_short = true;
                st.remaining = 0;
            }
        }
        let mut el2: Vec<usize> = ids.iter().copied().filter(|id| !(*id < MAX_TASKS && e.late[*id] && !all_line_done)).collect();
        if el2.is_empty() {
            e.late_forced = true;
            el2 = ids.to_vec();
        }
        eligible = el2;
    } else {
        for st in e.stalls.iter_mut() {
            if st.triggered && st.remaining > 0 {
                if ids.contains(&st.task) {
                    st.fired = true;
                }
                st.remaining -= 1;
            }
        }
    }
    // fairness: the current task steps aside if anybody else is eligible
    if e.must_yield {
        if let Some(c) = cur {
            if eligible.len() > 1 && eligible.contains(&c) {
                eligible.retain(|x| *x != c);
                if let Policy::Pct { .. } = e.policy {
                    if c < MAX_TASKS {
                        e.low_prio -= 1;
                        e.prio[c] = e.low_prio;
                    }
                }
            }
        }
    }
    let step = e.steps;
    match e.policy.clone() {
        Policy::Random => eligible[e.rng.below(eligible.len() as u64) as usize],
        Policy::Sticky { stay } => {
            if let Some(c) = cur {
                if eligible.contains(&c) && e.rng.below(16) < stay {
                    return c;
                }
            }
            eligible[e.rng.below(eligible.len() as u64) as usize]
        }
        Policy::Pct { .. } => {
            if e.change_points.contains(&step) {
                if let Some(c) = cur {
                    if c < MAX_TASKS {
                        e.low_prio -= 1;
                        e.prio[c] = e.low_prio;
                    }
                }
            }
            let mut best = eligible[0];
            for &id in eligible.iter() {
                if e.prio[id.min(MAX_TASKS - 1)] > e.prio[best.min(MAX_TASKS - 1)] {
                    best = id;
                }
            }
            best
        }
        Policy::Replay(_) => unreachable!(),
    }
}

/// Tolerant replay: follow the list; if the listed task is not runnable take the current task
/// if runnable, else the lowest runnable id.  A shrunk schedule therefore never aborts.
fn pick_replay(list: &[u8], step: usize, ids: &[usize], cur: Option<usize>) -> usize {
    if step < list.len() && ids.contains(&(list[step] as usize)) {
        return list[step] as usize;
    }
    if let Some(c) = cur {
        if ids.contains(&c) {
            return c;
        }
    }
    *ids.iter().min().unwrap()
}

// ------------------------------------------------------------------------------------------
// One simulated execution
// ------------------------------------------------------------------------------------------

#[derive(Clone, Debug)]
struct Violation {
    class: &'static str,
    detail: String,
}

#[derive(Clone, Debug, Default)]
struct ExecStats {
    steps: usize,
    events: usize,
    race_phase_events: usize,
    signature: u64,
    contended: bool,
    once_contended: bool,
    fast_path_reads: u32,
    stalls_configured: u32,
    stalls_triggered: u32,
    stalls_fired: u32,
    stalls_fired_in_init: u32,
    stalls_cut_short: u32,
    losers_blocked_while_winner_stalled: u32,
    late_threads: u32,
    late_after_init: u32,
    late_forced: bool,
    crash_ops: u32,
    crash_during_init: u32,
    multi_depth_ops_contended: u32,
    constructed: [[u32; N_SLOTS]; 2],
    contended_slots: [[bool; N_SLOTS]; 2],
    outcome_digest: u64,
}

#[derive(Clone, Debug)]
struct ExecResult {
    violations: Vec<Violation>,
    stats: ExecStats,
    schedule: Vec<u8>,
    events: Vec<verif_rt::Event>,
}

fn setup_execution(sc: &Scenario, policy: Policy, sched_seed: u64, est_len: usize) {
    ENGINE.with(|e| {
        let mut e = e.borrow_mut();
        e.policy = policy.clone();
        e.rng = Rng::new(sched_seed);
        e.n_threads = sc.threads.len();
        e.late = [false; MAX_TASKS];
        for (ti, t) in sc.threads.iter().enumerate() {
            e.late[ti + 1] = t.start == Start::Late;
        }
        e.stalls = sc
            .faults
            .iter()
            .map(|f| match f {
                Fault::Stall { thread, at_event, steps } => StallState { task: *thread as usize + 1, at_event: *at_event, steps: *steps, ..Default::default() },
            })
            .filter(|st| st.task <= sc.threads.len())
            .collect();
        e.est_len = est_len.max(8);
        e.schedule.clear();
        e.steps = 0;
        e.spawning_done = false;
        e.thread_done = [false; MAX_TASKS];
        e.late_released_step = None;
        e.late_forced = false;
        e.last_chosen = None;
        e.consecutive = 0;
        e.must_yield = false;
        e.observed = sc.threads.iter().map(|t| vec![None; t.ops.len()]).collect();
        e.last = None;
        // PCT-style priorities and change points
        e.low_prio = 1000;
        e.change_points.clear();
        for i in 0..MAX_TASKS {
            e.prio[i] = 0;
        }
        if let Policy::Pct { depth } = policy {
            // random permutation of priorities 2000.. for tasks 1..; the main task is irrelevant
            let n = MAX_TASKS;
            let mut perm: Vec<i64> = (0..n as i64).collect();
            for i in (1..n).rev() {
                let j = e.rng.below(i as u64 + 1) as usize;
                perm.swap(i, j);
            }
            for i in 0..n {
                e.prio[i] = 2000 + perm[i];
            }
            let len = e.est_len as u64;
            for _ in 1..depth {
                let cp = e.rng.below(len) as usize;
                e.change_points.push(cp);
            }
        }
    });
}

/// Body of one simulated execution (runs as shuttle's main task).
fn execution_body(sc: &Arc<Scenario>) {
    cdshealpix::verif_reset();
    verif_rt::sim::begin(true);
    let snap = verif_rt::sim::release_snapshot();
    let mut handles = Vec::with_capacity(sc.threads.len());
    for ti in 0..sc.threads.len() {
        let scc = sc.clone();
        handles.push(shuttle::thread::spawn(move || {
            verif_rt::sim::acquire(&snap);
            let my_task: usize = shuttle::current::me().into();
            assert_eq!(my_task, ti + 1, "engine B assumes task id == thread index + 1");
            for (oi, op) in scc.threads[ti].ops.iter().enumerate() {
                let out = exec(op);
                let at = verif_rt::sim::n_events();
                ENGINE.with(|e| e.borrow_mut().observed[ti][oi] = Some((out, at)));
            }
            ENGINE.with(|e| e.borrow_mut().thread_done[ti + 1] = true);
            verif_rt::sim::release_snapshot()
        }));
    }
    ENGINE.with(|e| e.borrow_mut().spawning_done = true);
    let mut thread_died = false;
    for h in handles {
        match h.join() {
            Ok(c) => verif_rt::sim::acquire(&c),
            Err(_) => thread_died = true,
        }
    }
    let race_phase_events = verif_rt::sim::n_events();
    // H3: post-quiescence sequential re-execution by the main task (monitor still on: every
    // access below is ordered after everything the threads did, through join).
    let mut h3: Vec<Vec<Outcome>> = Vec::with_capacity(sc.threads.len());
    for t in sc.threads.iter() {
        h3.push(t.ops.iter().map(exec).collect());
    }
    let report = verif_rt::sim::take_report();
    let res = evaluate(sc, report, race_phase_events, h3, thread_died);
    ENGINE.with(|e| e.borrow_mut().last = Some(res));
}

fn table_name(t: u8) -> &'static str {
    match t {
        0 => "LAYERS",
        1 => "CSTS_C2V",
        254 => "Once",
        _ => "?",
    }
}

fn evaluate(sc: &Scenario, report: Report, race_phase_events: usize, h3: Vec<Vec<Outcome>>, thread_died: bool) -> ExecResult {
    let mut v: Vec<Violation> = Vec::new();
    let mut st = ExecStats::default();
    let (observed, reference, ref_constructed, schedule, stalls, late_released_step, late_forced, steps) = ENGINE.with(|e| {
        let e = e.borrow();
        (e.observed.clone(), e.reference.clone(), e.ref_constructed, e.schedule.clone(), e.stalls.clone(), e.late_released_step, e.late_forced, e.steps)
    });
    st.steps = steps;
    st.events = report.events.len();
    st.race_phase_events = race_phase_events;
    st.late_forced = late_forced;
    if thread_died {
        v.push(Violation { class: "unexpected-panic", detail: "a caller thread died outside an op".into() });
    }
    // ---- I1 / I5 / I2 on what the racing threads observed; H3 on the re-execution
    let mut first_ptr = [0usize; N_SLOTS];
    let mut od = Digest::new();
    for (ti, t) in sc.threads.iter().enumerate() {
        for (oi, op) in t.ops.iter().enumerate() {
            let r = &reference[ti][oi];
            match &observed[ti][oi] {
                None => v.push(Violation { class: "no-progress", detail: format!("thread {} op {} ({}) never returned", ti, oi, describe_op(op)) }),
                Some((o, _)) => {
                    od.u64(o.digest);
                    if o.panic != r.panic {
                        v.push(Violation { class: "unexpected-panic", detail: format!("thread {} op {} ({}): raced {:?}, single-threaded {:?}", ti, oi, describe_op(op), o.panic, r.panic) });
                    } else if o.digest != r.digest {
                        v.push(Violation { class: "wrong-result", detail: format!("thread {} op {} ({}): raced digest {:016x} != single-threaded {:016x}", ti, oi, describe_op(op), o.digest, r.digest) });
                    }
                    if let (Op::L { d }, None) = (op, &o.panic) {
                        let fp = &mut first_ptr[*d as usize];
                        if *fp == 0 {
                            *fp = o.ptr;
                        } else if *fp != o.ptr {
                            v.push(Violation { class: "different-object", detail: format!("depth {}: threads obtained {:x} and {:x}", d, *fp, o.ptr) });
                        }
                    }
                }
            }
            let h = &h3[ti][oi];
            if h.panic != r.panic || h.digest != r.digest {
                v.push(Violation { class: "h3-mismatch", detail: format!("after quiescence, thread {} op {} ({}): {:?}/{:016x} vs single-threaded {:?}/{:016x}", ti, oi, describe_op(op), h.panic, h.digest, r.panic, r.digest) });
            }
            if let (Op::L { d }, None) = (op, &h.panic) {
                let fp = first_ptr[*d as usize];
                if fp != 0 && fp != h.ptr {
                    v.push(Violation { class: "different-object", detail: format!("depth {}: raced pointer {:x} != pointer after quiescence {:x}", d, fp, h.ptr) });
                }
            }
        }
    }
    st.outcome_digest = od.finish();
    // ---- I3 / H1: construction counts
    for dc in report.double_constructs.iter() {
        v.push(Violation { class: "double-construct", detail: format!("{}[{}] constructed {} times (task {})", table_name(dc.table), dc.depth, dc.count, dc.task) });
    }
    st.constructed = report.constructed;
    for tb in 0..2 {
        for d in 0..N_SLOTS {
            let (got, want) = (report.constructed[tb][d], ref_constructed[tb][d]);
            if got != want && !(got > 1) {
                // got > 1 already reported as double-construct
                v.push(Violation { class: "construct-count", detail: format!("{}[{}] constructed {} times, single-threaded run constructs it {} time(s)", table_name(tb as u8), d, got, want) });
            }
        }
    }
    // ---- I4: races (H4 classification from the event log)
    for r in report.races.iter() {
        let shape = if r.second_kind == Kind::Read {
            if report.events[r.at_event].saw_some { "unordered read of the published object (broken double-checked lock)" } else { "read of the slot concurrent with the initialising write" }
        } else if r.first_kind == Kind::Read {
            "initialising write concurrent with an earlier unsynchronised read"
        } else {
            "two unordered writes"
        };
        v.push(Violation {
            class: "race",
            detail: format!(
                "{}[{}]: {} by task {} (epoch {}) and {} by task {} (clock {:?}) are not ordered by happens-before: {}",
                table_name(r.table), r.slot, r.first_kind.name(), r.first_task, r.first_epoch, r.second_kind.name(), r.second_task, &r.second_clock[..], shape
            ),
        });
    }
    // ---- H4: a slot must not be written again once its content has been handed out: every
    // read that saw `Some` returned a `&'static` into the slot, and the holder uses it without
    // passing through any seam, so a later write conflicts with those uses whatever the schedule.
    {
        let mut published: [[bool; N_SLOTS]; 2] = [[false; N_SLOTS]; 2];
        for e in report.events.iter() {
            if (e.table as usize) < 2 && (e.slot as usize) < N_SLOTS {
                let (tb, sl) = (e.table as usize, e.slot as usize);
                match e.kind {
                    Kind::Read if e.saw_some => published[tb][sl] = true,
                    Kind::Write if published[tb][sl] => {
                        v.push(Violation { class: "rewrite-after-publication", detail: format!("{}[{}] written by task {} after a reference to its content had been handed out", table_name(e.table), e.slot, e.task) });
                        published[tb][sl] = false;
                    }
                    _ => {}
                }
            }
        }
    }
    // ---- statistics / probes from the event log (race phase only)
    let mut sig = Digest::new();
    let ev = &report.events[..race_phase_events.min(report.events.len())];
    // per slot: tasks seen before the first write; per once key: tasks entered before first post
    let mut slot_tasks_before_write: [[u16; N_SLOTS]; 2] = [[0; N_SLOTS]; 2];
    let mut slot_written: [[bool; N_SLOTS]; 2] = [[false; N_SLOTS]; 2];
    let mut once_tasks: Vec<(u8, u16, bool)> = Vec::new(); // (key idx, task mask, posted)
    let mut first_touch: [[bool; MAX_TASKS]; 60] = [[false; MAX_TASKS]; 60];
    // window tracking for "in initialiser": task -> inside once (between Construct and OncePost)
    let mut in_init: [bool; MAX_TASKS] = [false; MAX_TASKS];
    let mut init_windows: Vec<(usize, usize, u8)> = Vec::new(); // (start idx, end idx, task)
    let mut init_start: [usize; MAX_TASKS] = [0; MAX_TASKS];
    let mut last_construct: [Option<(u8, u8)>; MAX_TASKS] = [None; MAX_TASKS];
    let mut once_slot: Vec<(u8, u8, u8)> = Vec::new(); // (key idx, table, depth)
    for (i, e) in ev.iter().enumerate() {
        sig.u64(((e.task as u64) << 24) | ((e.table as u64) << 16) | ((e.slot as u64) << 8) | e.kind as u64);
        let t = e.task as usize;
        match e.kind {
            Kind::Read | Kind::Write if (e.table as usize) < 2 => {
                let (tb, sl) = (e.table as usize, e.slot as usize);
                if !slot_written[tb][sl] {
                    slot_tasks_before_write[tb][sl] |= 1 << t;
                }
                if e.kind == Kind::Write {
                    slot_written[tb][sl] = true;
                }
                let key = tb * 30 + sl;
                if e.kind == Kind::Read && !first_touch[key][t] && e.saw_some {
                    st.fast_path_reads += 1;
                }
                first_touch[key][t] = true;
            }
            Kind::OnceEnter => {
                match once_tasks.iter_mut().find(|(k, _, _)| *k == e.slot) {
                    Some((_, m, posted)) => {
                        if !*posted {
                            *m |= 1 << t;
                        }
                    }
                    None => once_tasks.push((e.slot, 1 << t, false)),
                }
            }
            Kind::OncePost => {
                if let Some((_, _, posted)) = once_tasks.iter_mut().find(|(k, _, _)| *k == e.slot) {
                    *posted = true;
                }
                if in_init[t] {
                    in_init[t] = false;
                    init_windows.push((init_start[t], i, e.task));
                }
                if let Some((tb, d)) = last_construct[t].take() {
                    once_slot.push((e.slot, tb, d));
                }
            }
            Kind::Construct => {
                if !in_init[t] {
                    in_init[t] = true;
                    init_start[t] = i;
                }
                last_construct[t] = Some((e.table, e.slot));
            }
            _ => {}
        }
    }
    for t in 0..MAX_TASKS {
        if in_init[t] {
            init_windows.push((init_start[t], ev.len(), t as u8));
        }
    }
    st.signature = sig.finish();
    for tb in 0..2 {
        for sl in 0..N_SLOTS {
            if slot_tasks_before_write[tb][sl].count_ones() >= 2 {
                st.contended = true;
                st.contended_slots[tb][sl] = true;
            }
        }
    }
    for (k, m, _) in once_tasks.iter() {
        if m.count_ones() >= 2 {
            st.once_contended = true;
            st.contended = true;
            // attribute the Once to the slot its winner constructed
            if let Some((_, tb, d)) = once_slot.iter().find(|(kk, _, _)| kk == k) {
                if (*tb as usize) < 2 && (*d as usize) < N_SLOTS {
                    st.contended_slots[*tb as usize][*d as usize] = true;
                }
            }
        }
    }
    // stalls
    st.stalls_configured = stalls.len() as u32;
    for s in stalls.iter() {
        if s.triggered {
            st.stalls_triggered += 1;
        }
        if s.fired {
            st.stalls_fired += 1;
            // was the task inside an initialiser when it was stalled?  The stall begins right
            // before its `at_event`-th seam event.
            let mut n = 0u32;
            let mut idx = None;
            for (i, e) in ev.iter().enumerate() {
                if e.task as usize == s.task {
                    n += 1;
                    if n == s.at_event {
                        idx = Some(i);
                        break;
                    }
                }
            }
            if let Some(i) = idx {
                if init_windows.iter().any(|(a, b, t)| *t as usize == s.task && *a < i && i <= *b) {
                    st.stalls_fired_in_init += 1;
                }
            }
        }
        if s.cut_short {
            st.stalls_cut_short += 1;
        }
        if s.triggered && (s.cut_short || s.fired) {
            // stalled inside the initialiser while every other runnable thread was blocked
            let mut n = 0u32;
            let mut idx = None;
            for (i, e) in ev.iter().enumerate() {
                if e.task as usize == s.task {
                    n += 1;
                    if n == s.at_event { idx = Some(i); break; }
                }
            }
            if let (Some(i), true) = (idx, s.cut_short) {
                if init_windows.iter().any(|(a, b, t)| *t as usize == s.task && *a < i && i <= *b) {
                    st.losers_blocked_while_winner_stalled += 1;
                }
            }
        }
    }
    // late joiners
    st.late_threads = sc.n_late() as u32;
    if late_released_step.is_some() && !late_forced {
        st.late_after_init = st.late_threads;
    }
    // crashing callers: did one return (by panic) while another task was inside an initialiser?
    for (ti, t) in sc.threads.iter().enumerate() {
        for (oi, op) in t.ops.iter().enumerate() {
            if op.is_crash() {
                st.crash_ops += 1;
                if let Some((_, at)) = &observed[ti][oi] {
                    if init_windows.iter().any(|(a, b, tk)| *tk as usize != ti + 1 && *a < *at && *at <= *b) {
                        st.crash_during_init += 1;
                    }
                }
            }
        }
    }
    // a task constructing >= 3 layer depths (one coverage call) while another task's events interleave
    for t in 1..MAX_TASKS {
        let cons: Vec<usize> = ev.iter().enumerate().filter(|(_, e)| e.task as usize == t && e.kind == Kind::Construct && e.table == 0).map(|(i, _)| i).collect();
        if cons.len() >= 3 {
            let (a, b) = (cons[0], *cons.last().unwrap());
            if ev[a..=b].iter().any(|e| e.task as usize != t) {
                st.multi_depth_ops_contended += 1;
            }
        }
    }
    ExecResult { violations: v, stats: st, schedule, events: report.events }
}

/// Reference pass: the same ops, one task, monitor off -> reference outcomes and the set of
/// (table, depth) a single-threaded run constructs.
fn reference_pass(sc: &Arc<Scenario>) -> Result<(), String> {
    let scc = sc.clone();
    let r = std::panic::catch_unwind(std::panic::AssertUnwindSafe(|| {
        let sched = SimScheduler { remaining: 1 };
        ENGINE.with(|e| {
            let mut e = e.borrow_mut();
            e.policy = Policy::Replay(Vec::new());
            e.steps = 0;
            e.schedule.clear();
        });
        let mut cfg = shuttle::Config::new();
        cfg.stack_size = STACK_SIZE;
        cfg.failure_persistence = shuttle::FailurePersistence::None;
        cfg.max_steps = shuttle::MaxSteps::FailAfter(MAX_STEPS);
        shuttle::Runner::new(sched, cfg).run(move || {
            cdshealpix::verif_reset();
            verif_rt::sim::begin(false);
            let mut refs: Vec<Vec<Outcome>> = Vec::new();
            for t in scc.threads.iter() {
                refs.push(t.ops.iter().map(exec).collect());
            }
            let c = verif_rt::sim::constructed();
            let calls = verif_rt::sim::seam_calls() as usize;
            let n_threads = scc.threads.len();
            ENGINE.with(|e| {
                let mut e = e.borrow_mut();
                e.reference = refs;
                e.ref_constructed = c;
                // Every scheduling step lets some task run to its next seam call / blocking point /
                // exit, so a raced execution needs about (race phase + H3 re-execution) = 2x the
                // reference's seam calls, plus spawn/join/blocking steps.  8x + slack is generous;
                // exceeding it means a livelock or runaway computation under the race.
                e.max_steps = (8 * calls + 400 * n_threads + 10_000).min(20_000_000);
            });
            cdshealpix::verif_reset();
        });
    }));
    r.map_err(|p| format!("reference pass panicked: {}", payload_str(&p)))
}

fn payload_str(p: &Box<dyn std::any::Any + Send>) -> String {
    if let Some(s) = p.downcast_ref::<&'static str>() {
        (*s).to_string()
    } else if let Some(s) = p.downcast_ref::<String>() {
        s.clone()
    } else {
        "<non-string panic>".into()
    }
}

/// Run one execution of `sc` under `policy`; panics escaping shuttle (deadlock, step bound)
/// become violations.
fn run_one(sc: &Arc<Scenario>, policy: Policy, sched_seed: u64, est_len: usize) -> ExecResult {
    setup_execution(sc, policy, sched_seed, est_len);
    let scc = sc.clone();
    let r = std::panic::catch_unwind(std::panic::AssertUnwindSafe(|| {
        let mut cfg = shuttle::Config::new();
        cfg.stack_size = STACK_SIZE;
        cfg.failure_persistence = shuttle::FailurePersistence::None;
        cfg.max_steps = shuttle::MaxSteps::FailAfter(ENGINE.with(|e| e.borrow().max_steps));
        shuttle::Runner::new(SimScheduler { remaining: 1 }, cfg).run(move || execution_body(&scc));
    }));
    match r {
        Ok(()) => ENGINE.with(|e| e.borrow_mut().last.take()).unwrap_or_else(|| ExecResult {
            violations: vec![Violation { class: "harness", detail: "execution produced no result".into() }],
            stats: ExecStats::default(),
            schedule: Vec::new(),
            events: Vec::new(),
        }),
        Err(p) => {
            let msg = payload_str(&p);
            let class = if msg.contains("deadlock") {
                "deadlock"
            } else if msg.contains("max_steps") {
                "step-bound"
            } else {
                "engine-panic"
            };
            let report = verif_rt::sim::take_report();
            let (schedule, steps) = ENGINE.with(|e| {
                let e = e.borrow();
                (e.schedule.clone(), e.steps)
            });
            let mut st = ExecStats::default();
            st.steps = steps;
            st.events = report.events.len();
            ExecResult { violations: vec![Violation { class, detail: first_line(&msg) }], stats: st, schedule, events: report.events }
        }
    }
}

fn first_line(s: &str) -> String {
    let l = s.lines().next().unwrap_or("");
    if l.len() > 300 { l[..300].to_string() } else { l.to_string() }
}

// ------------------------------------------------------------------------------------------
// JSON helpers
// ------------------------------------------------------------------------------------------

fn json_u8_list(v: &[u8]) -> String {
    let mut s = String::from("[");
    for (i, x) in v.iter().enumerate() {
        if i > 0 { s.push(','); }
        let _ = write!(s, "{}", x);
    }
    s.push(']');
    s
}

fn json_events(ev: &[verif_rt::Event], max: usize) -> String {
    let mut s = String::from("[");
    for (i, e) in ev.iter().take(max).enumerate() {
        if i > 0 { s.push(','); }
        let _ = write!(s, "\"t{} {}[{}] {}{}\"", e.task, table_name(e.table), e.slot, e.kind.name(), if e.kind == Kind::Read { if e.saw_some { "=Some" } else { "=None" } } else { "" });
    }
    s.push(']');
    s
}

fn json_violations(v: &[Violation]) -> String {
    let mut s = String::from("[");
    for (i, x) in v.iter().enumerate() {
        if i > 0 { s.push(','); }
        let _ = write!(s, "{{\"class\":\"{}\",\"detail\":\"{}\"}}", x.class, json_escape(&x.detail));
    }
    s.push(']');
    s
}

fn finding_json(sc_txt: &str, sc: &Scenario, scenario_index: u64, scenario_seed: u64, sched_index: u64, sched_seed: u64, policy: &Policy, res: &ExecResult) -> String {
    format!(
        "{{\"engine\":\"B\",\"scenario_index\":{},\"scenario_seed\":{},\"sched_index\":{},\"sched_seed\":{},\"policy\":\"{}\",\"scenario\":\"{}\",\"scenario_desc\":{},\"schedule\":{},\"steps\":{},\"violations\":{},\"events\":{}}}",
        scenario_index, scenario_seed, sched_index, sched_seed, policy.name(), sc_txt, describe_json(sc), json_u8_list(&res.schedule), res.stats.steps, json_violations(&res.violations), json_events(&res.events, std::env::var("SIMB_MAX_EVENTS").ok().and_then(|v| v.parse().ok()).unwrap_or(400))
    )
}

// ------------------------------------------------------------------------------------------
// Sub-commands
// ------------------------------------------------------------------------------------------

fn choose_policy(rng: &mut Rng) -> Policy {
    // SIMB_FORCE_POLICY=random: used by the driver to re-examine a liveness finding (step bound)
    // under the one policy that is fair with probability 1
    if std::env::var("SIMB_FORCE_POLICY").map(|v| v == "random").unwrap_or(false) {
        let _ = rng.below(10);
        return Policy::Random;
    }
    match rng.below(10) {
        0..=3 => Policy::Random,
        4..=5 => Policy::Sticky { stay: rng.range(8, 14) },
        6..=7 => Policy::Pct { depth: 1 },
        8 => Policy::Pct { depth: 2 },
        _ => Policy::Pct { depth: 3 },
    }
}

#[derive(Default)]
struct BatchStats {
    scenarios: u64,
    scenarios_ref_failed: u64,
    runs: u64,
    steps: u64,
    events: u64,
    contended_runs: u64,
    once_contended_runs: u64,
    fast_path_reads: u64,
    stalls_configured: u64,
    stalls_triggered: u64,
    stalls_fired: u64,
    stalls_fired_in_init: u64,
    stalls_cut_short: u64,
    losers_blocked_while_winner_stalled: u64,
    late_threads: u64,
    late_after_init: u64,
    late_forced_runs: u64,
    crash_ops: u64,
    crash_during_init: u64,
    multi_depth_ops_contended: u64,
    runs_with_violation: u64,
    first_use_contended: [[u64; N_SLOTS]; 2],
    constructed: [[u64; N_SLOTS]; 2],
    policy_runs: [u64; 5],
    op_kind_runs: [u64; 19],
    threads_hist: [u64; MAX_TASKS],
    log_digest: u64,
    /// wrapping sum of per-scenario digests: independent of how scenarios are spread over workers
    scenario_digest_sum: u64,
}

fn policy_idx(p: &Policy) -> usize {
    match p {
        Policy::Random => 0,
        Policy::Sticky { .. } => 1,
        Policy::Pct { depth: 1 } => 2,
        Policy::Pct { depth: 2 } => 3,
        _ => 4,
    }
}

fn cmd_batch(a: &[String]) -> i32 {
    if a.len() != 8 && a.len() != 9 {
        eprintln!("HARNESS-ERROR: usage: simb batch <verif_seed> <worker> <nworkers> <first_scenario> <n_scenarios> <scheds> <profile> <sigfile|-> [progress file]");
        return 2;
    }
    if a.len() == 9 {
        progress_open(&a[8]);
    }
    let verif_seed: u64 = a[0].parse().expect("verif_seed");
    let worker: u64 = a[1].parse().expect("worker");
    let nworkers: u64 = a[2].parse().expect("nworkers");
    let first: u64 = a[3].parse().expect("first");
    let n_sc: u64 = a[4].parse().expect("n_scenarios");
    let scheds: u64 = a[5].parse().expect("scheds");
    let profile = match a[6].as_str() { "full" => Profile::Full, "light" => Profile::Light, "tiny" => Profile::Tiny, "cover" => Profile::Cover, "crash" => Profile::Crash, "ranges" => Profile::Ranges, "pairs" => Profile::Pairs, "xmatch" => Profile::Xmatch, "long" => Profile::Long, "crowd" => Profile::Crowd, "twins" => Profile::Twins, _ => { eprintln!("HARNESS-ERROR: bad profile"); return 2; } };
    let sigfile = &a[7];
    let mut bs = BatchStats::default();
    let mut sigs_all: HashSet<u64> = HashSet::new();
    let mut sigs_nontrivial: HashSet<u64> = HashSet::new();
    let mut findings: Vec<String> = Vec::new();
    let mut classes_seen: Vec<String> = Vec::new();
    let mut samples: Vec<String> = Vec::new();
    let mut log = Digest::new();
    let mut idx = first + worker;
    while idx < first + n_sc {
        let sseed = derive_seed(verif_seed, ENGINE_TAG, idx);
        let sc = generate_indexed(sseed, idx, profile);
        let sc_txt = encode(&sc);
        let sc_hash = { let mut d = Digest::new(); for b in sc_txt.bytes() { d.u64(b as u64); } d.finish() };
        let sc = Arc::new(sc);
        bs.scenarios += 1;
        bs.threads_hist[sc.threads.len().min(MAX_TASKS - 1)] += 1;
        progress("ref", idx, sseed, 0);
        if let Err(e) = reference_pass(&sc) {
            // the single-threaded run itself failed in the engine: not a C20 matter
            bs.scenarios_ref_failed += 1;
            eprintln!("note: scenario {} skipped: {}", idx, first_line(&e));
            idx += nworkers;
            continue;
        }
        let mut prng = Rng::new(splitmix64(sseed ^ 0x5ced));
        let mut est_len = 40usize;
        let mut sc_log = Digest::new();
        sc_log.u64(idx);
        for k in 0..scheds {
            let policy = choose_policy(&mut prng);
            let sched_seed = splitmix64(sseed ^ splitmix64(k + 1));
            progress("run", idx, sseed, k);
            let res = run_one(&sc, policy.clone(), sched_seed, est_len);
            est_len = res.stats.steps.max(8);
            let s = &res.stats;
            bs.runs += 1;
            bs.steps += s.steps as u64;
            bs.events += s.events as u64;
            bs.policy_runs[policy_idx(&policy)] += 1;
            for t in sc.threads.iter() { for o in t.ops.iter() { bs.op_kind_runs[OP_KINDS.iter().position(|k| *k == o.kind()).unwrap()] += 1; } }
            if s.contended { bs.contended_runs += 1; }
            if s.once_contended { bs.once_contended_runs += 1; }
            bs.fast_path_reads += s.fast_path_reads as u64;
            bs.stalls_configured += s.stalls_configured as u64;
            bs.stalls_triggered += s.stalls_triggered as u64;
            bs.stalls_fired += s.stalls_fired as u64;
            bs.stalls_fired_in_init += s.stalls_fired_in_init as u64;
            bs.stalls_cut_short += s.stalls_cut_short as u64;
            bs.losers_blocked_while_winner_stalled += s.losers_blocked_while_winner_stalled as u64;
            bs.late_threads += s.late_threads as u64;
            bs.late_after_init += s.late_after_init as u64;
            if s.late_forced { bs.late_forced_runs += 1; }
            bs.crash_ops += s.crash_ops as u64;
            bs.crash_during_init += s.crash_during_init as u64;
            bs.multi_depth_ops_contended += s.multi_depth_ops_contended as u64;
            for tb in 0..2 { for d in 0..N_SLOTS {
                if s.contended_slots[tb][d] { bs.first_use_contended[tb][d] += 1; }
                bs.constructed[tb][d] += s.constructed[tb][d] as u64;
            } }
            let full_sig = { let mut d = Digest::new(); d.u64(sc_hash); d.u64(s.signature); d.finish() };
            sigs_all.insert(full_sig);
            if s.contended { sigs_nontrivial.insert(full_sig); }
            log.u64(full_sig);
            log.u64(s.outcome_digest);
            log.u64(s.steps as u64);
            for x in res.schedule.iter() { log.u64(*x as u64); }
            sc_log.u64(full_sig);
            sc_log.u64(s.outcome_digest);
            sc_log.u64(s.steps as u64);
            sc_log.u64(res.violations.len() as u64);
            for x in res.schedule.iter() { sc_log.u64(*x as u64); }
            if samples.len() < 3 && s.contended && k >= 1 {
                samples.push(format!("{{\"scenario\":{},\"policy\":\"{}\",\"schedule\":{},\"seam_events\":{}}}", describe_json(&sc), policy.name(), json_u8_list(&res.schedule), json_events(&res.events[..s.race_phase_events.min(res.events.len())], 60)));
            }
            if !res.violations.is_empty() {
                bs.runs_with_violation += 1;
                let cls = res.violations[0].class.to_string();
                if !classes_seen.contains(&cls) && findings.len() < 6 {
                    classes_seen.push(cls);
                    findings.push(finding_json(&sc_txt, &sc, idx, sseed, k, sched_seed, &policy, &res));
                }
            }
        }
        bs.scenario_digest_sum = bs.scenario_digest_sum.wrapping_add(sc_log.finish());
        idx += nworkers;
    }
    bs.log_digest = log.finish();
    if sigfile != "-" {
        // binary: count_all, count_nontrivial, then the u64s
        let mut bytes: Vec<u8> = Vec::with_capacity(16 + 8 * (sigs_all.len() + sigs_nontrivial.len()));
        bytes.extend_from_slice(&(sigs_all.len() as u64).to_le_bytes());
        bytes.extend_from_slice(&(sigs_nontrivial.len() as u64).to_le_bytes());
        let mut v: Vec<u64> = sigs_all.iter().copied().collect();
        v.sort_unstable();
        for x in v { bytes.extend_from_slice(&x.to_le_bytes()); }
        let mut v: Vec<u64> = sigs_nontrivial.iter().copied().collect();
        v.sort_unstable();
        for x in v { bytes.extend_from_slice(&x.to_le_bytes()); }
        if let Err(e) = std::fs::write(sigfile, bytes) {
            eprintln!("HARNESS-ERROR: cannot write {}: {}", sigfile, e);
            return 2;
        }
    }
    let arr2 = |a: &[[u64; N_SLOTS]; 2]| -> String {
        let f = |r: &[u64; N_SLOTS]| r.iter().map(|x| x.to_string()).collect::<Vec<_>>().join(",");
        format!("{{\"LAYERS\":[{}],\"CSTS_C2V\":[{}]}}", f(&a[0]), f(&a[1]))
    };
    let mut okr = String::from("{");
    for (i, k) in OP_KINDS.iter().enumerate() { if i > 0 { okr.push(','); } let _ = write!(okr, "\"{}\":{}", k, bs.op_kind_runs[i]); }
    okr.push('}');
    println!(
        "{{\"worker\":{},\"scenarios\":{},\"scenarios_ref_failed\":{},\"runs\":{},\"steps\":{},\"seam_events\":{},\"distinct_signatures\":{},\"distinct_nontrivial\":{},\"contended_runs\":{},\"once_contended_runs\":{},\"fast_path_reads\":{},\"stalls_configured\":{},\"stalls_triggered\":{},\"stalls_fired\":{},\"stalls_fired_in_init\":{},\"stalls_cut_short\":{},\"losers_blocked_while_winner_stalled\":{},\"late_threads\":{},\"late_after_init\":{},\"late_forced_runs\":{},\"crash_ops\":{},\"crash_during_init\":{},\"multi_depth_ops_contended\":{},\"runs_with_violation\":{},\"first_use_contended\":{},\"constructed\":{},\"policy_runs\":{{\"random\":{},\"sticky\":{},\"pct1\":{},\"pct2\":{},\"pct3\":{}}},\"op_kind_runs\":{},\"threads_hist\":[{}],\"log_digest\":\"{:016x}\",\"scenario_digest_sum\":\"{:016x}\",\"samples\":[{}],\"findings\":[{}]}}",
        worker, bs.scenarios, bs.scenarios_ref_failed, bs.runs, bs.steps, bs.events, sigs_all.len(), sigs_nontrivial.len(), bs.contended_runs, bs.once_contended_runs, bs.fast_path_reads,
        bs.stalls_configured, bs.stalls_triggered, bs.stalls_fired, bs.stalls_fired_in_init, bs.stalls_cut_short, bs.losers_blocked_while_winner_stalled, bs.late_threads, bs.late_after_init, bs.late_forced_runs, bs.crash_ops, bs.crash_during_init,
        bs.multi_depth_ops_contended, bs.runs_with_violation, arr2(&bs.first_use_contended), arr2(&bs.constructed),
        bs.policy_runs[0], bs.policy_runs[1], bs.policy_runs[2], bs.policy_runs[3], bs.policy_runs[4], okr,
        bs.threads_hist.iter().map(|x| x.to_string()).collect::<Vec<_>>().join(","), bs.log_digest, bs.scenario_digest_sum, samples.join(","), findings.join(",")
    );
    0
}

fn parse_schedule(s: &str) -> Result<Vec<u8>, String> {
    if s == "-" || s.is_empty() {
        return Ok(Vec::new());
    }
    if let Some(path) = s.strip_prefix('@') {
        // long schedules do not fit in one argv entry
        let txt = std::fs::read_to_string(path).map_err(|e| format!("cannot read schedule file {}: {}", path, e))?;
        return parse_schedule(txt.trim());
    }
    s.split(',').map(|x| x.trim().parse::<u8>().map_err(|e| format!("bad schedule entry '{}': {}", x, e))).collect()
}

/// `simb replay <scenario> <schedule>`: exactly that execution.
fn cmd_replay(a: &[String]) -> i32 {
    if a.len() < 2 {
        eprintln!("HARNESS-ERROR: usage: simb replay <scenario> <schedule csv|->");
        return 2;
    }
    let sc = match decode(&a[0]) { Ok(s) => s, Err(e) => { eprintln!("HARNESS-ERROR: {}", e); return 2; } };
    let list = match parse_schedule(&a[1]) { Ok(l) => l, Err(e) => { eprintln!("HARNESS-ERROR: {}", e); return 2; } };
    let sc_txt = encode(&sc);
    let sc = Arc::new(sc);
    if let Err(e) = reference_pass(&sc) {
        eprintln!("HARNESS-ERROR: {}", e);
        return 2;
    }
    let pol = Policy::Replay(list);
    let res = run_one(&sc, pol.clone(), 0, 40);
    println!("{}", finding_json(&sc_txt, &sc, 0, 0, 0, 0, &pol, &res));
    if res.violations.is_empty() { 0 } else { 1 }
}

/// `simb refonly <scenario>`: ONLY the single-threaded reference pass, in this (fresh) process.
/// Prints a text record that `simb rawrun` of ANOTHER fresh process reads back:
///   REF <thread> <op> <digest hex> <P|-> <panic message>
///   CONS <table> <30 counts>
///   STEPS <max_steps>
fn cmd_refonly(a: &[String]) -> i32 {
    if a.len() != 1 {
        eprintln!("HARNESS-ERROR: usage: simb refonly <scenario>");
        return 2;
    }
    let sc = match decode(&a[0]) { Ok(s) => Arc::new(s), Err(e) => { eprintln!("HARNESS-ERROR: {}", e); return 2; } };
    if let Err(e) = reference_pass(&sc) {
        eprintln!("HARNESS-ERROR: {}", e);
        return 2;
    }
    ENGINE.with(|e| {
        let e = e.borrow();
        for (ti, t) in e.reference.iter().enumerate() {
            for (oi, o) in t.iter().enumerate() {
                match &o.panic {
                    Some(m) => println!("REF {} {} {:016x} P {}", ti, oi, o.digest, m.replace('\n', " ")),
                    None => println!("REF {} {} {:016x} - ", ti, oi, o.digest),
                }
            }
        }
        for tb in 0..2 {
            println!("CONS {} {}", tb, e.ref_constructed[tb].iter().map(|x| x.to_string()).collect::<Vec<_>>().join(" "));
        }
        println!("STEPS {}", e.max_steps);
    });
    0
}

/// `simb rawrun <scenario> <schedule> <reference file>`: ONLY the raced execution, as the very
/// first thing this (fresh) process does with the library; the reference comes from the file
/// written by `simb refonly` in another process.  This is how a violation found in a batch is
/// confirmed: nothing that ran earlier in the process (reference pass, previous executions,
/// `verif_reset`) can have left state behind, so what is observed is what a real program that
/// races on its very first use of the library would observe.
fn cmd_rawrun(a: &[String]) -> i32 {
    if a.len() != 3 {
        eprintln!("HARNESS-ERROR: usage: simb rawrun <scenario> <schedule csv|@file|-> <reference file>");
        return 2;
    }
    let sc = match decode(&a[0]) { Ok(s) => s, Err(e) => { eprintln!("HARNESS-ERROR: {}", e); return 2; } };
    let list = match parse_schedule(&a[1]) { Ok(l) => l, Err(e) => { eprintln!("HARNESS-ERROR: {}", e); return 2; } };
    let txt = match std::fs::read_to_string(&a[2]) { Ok(t) => t, Err(e) => { eprintln!("HARNESS-ERROR: cannot read {}: {}", a[2], e); return 2; } };
    let mut reference: Vec<Vec<Outcome>> = sc.threads.iter().map(|t| vec![Outcome { digest: 0, ptr: 0, panic: None }; t.ops.len()]).collect();
    let mut cons = [[0u32; N_SLOTS]; 2];
    let mut max_steps = MAX_STEPS;
    for l in txt.lines() {
        let p: Vec<&str> = l.splitn(6, ' ').collect();
        match p[0] {
            "REF" if p.len() >= 5 => {
                let (ti, oi): (usize, usize) = (p[1].parse().unwrap_or(99), p[2].parse().unwrap_or(99));
                if ti < reference.len() && oi < reference[ti].len() {
                    reference[ti][oi].digest = u64::from_str_radix(p[3], 16).unwrap_or(0);
                    if p[4] == "P" {
                        reference[ti][oi].panic = Some(p.get(5).unwrap_or(&"").to_string());
                    }
                }
            }
            "CONS" => {
                let v: Vec<&str> = l.split(' ').collect();
                let tb: usize = v[1].parse().unwrap_or(9);
                if tb < 2 {
                    for d in 0..N_SLOTS.min(v.len().saturating_sub(2)) {
                        cons[tb][d] = v[2 + d].parse().unwrap_or(0);
                    }
                }
            }
            "STEPS" => max_steps = p[1].parse().unwrap_or(MAX_STEPS),
            _ => {}
        }
    }
    ENGINE.with(|e| {
        let mut e = e.borrow_mut();
        e.reference = reference;
        e.ref_constructed = cons;
        e.max_steps = max_steps;
    });
    let sc_txt = encode(&sc);
    let sc = Arc::new(sc);
    let pol = Policy::Replay(list);
    let res = run_one(&sc, pol.clone(), 0, 40);
    println!("{}", finding_json(&sc_txt, &sc, 0, 0, 0, 0, &pol, &res));
    if res.violations.is_empty() { 0 } else { 1 }
}

/// `simb search <scenario> <seed> <n> <class|any>`: seeded search over schedules of one scenario.
fn cmd_search(a: &[String]) -> i32 {
    if a.len() != 4 && a.len() != 5 {
        eprintln!("HARNESS-ERROR: usage: simb search <scenario> <seed> <n_schedules> <class|any> [only execution k]");
        return 2;
    }
    let only: Option<u64> = if a.len() == 5 { Some(a[4].parse().expect("k")) } else { None };
    let sc = match decode(&a[0]) { Ok(s) => s, Err(e) => { eprintln!("HARNESS-ERROR: {}", e); return 2; } };
    let seed: u64 = a[1].parse().expect("seed");
    let n: u64 = a[2].parse().expect("n");
    let class = a[3].as_str();
    let sc_txt = encode(&sc);
    let sc = Arc::new(sc);
    if let Err(e) = reference_pass(&sc) {
        eprintln!("HARNESS-ERROR: {}", e);
        return 2;
    }
    // the single-threaded reference pass survived: whatever kills the process from here on
    // happened in a raced execution
    eprintln!("REF-OK");
    let mut prng = Rng::new(splitmix64(seed ^ 0x5ced));
    let mut est_len = 40usize;
    for k in 0..n {
        let policy = choose_policy(&mut prng);
        let sched_seed = splitmix64(seed ^ splitmix64(k + 1));
        if let Some(o) = only {
            // reproduce exactly execution `o` of the batch: same policy stream, same est_len
            // evolution is not needed for non-PCT policies; for PCT it only moves change points
            if k < o && !matches!(policy, Policy::Pct { .. }) && false { continue; }
        }
        if only.map(|o| k > o).unwrap_or(false) { break; }
        eprintln!("RUN {}", k);
        let res = run_one(&sc, policy.clone(), sched_seed, est_len);
        est_len = res.stats.steps.max(8);
        if res.violations.iter().any(|v| class == "any" || v.class == class) {
            println!("{}", finding_json(&sc_txt, &sc, 0, seed, k, sched_seed, &policy, &res));
            return 1;
        }
    }
    println!("{{\"engine\":\"B\",\"searched\":{},\"violations\":[]}}", n);
    0
}

/// `simb seamcheck`: does the seam still fit the implementation?  For a few depths, a lone
/// simulated thread does its first `get_or_create(d)` and its first use of the constants of `d`;
/// twice, with `verif_reset()` in between.  Both times exactly one construction of each must be
/// seen, together with a write to the corresponding `Slots` entry.  If not (tables refactored
/// away from the hooked statics, state that `verif_reset` does not reset, ...) engine B cannot
/// interpret what it observes and must declare itself unavailable instead of raising alarms.
fn cmd_seamcheck() -> i32 {
    let mut problems: Vec<String> = Vec::new();
    // (depth 0 never touches the constants table: special-cased in the library)
    for d in [1u8, 7, 19, 20, 29] {
        let sc = Arc::new(Scenario { threads: vec![ThreadSpec { start: Start::Line, ops: vec![Op::L { d }, Op::V { d, lon: 1.0, lat: 0.5, r: None }] }], faults: vec![] });
        if let Err(e) = reference_pass(&sc) {
            problems.push(format!("depth {}: {}", d, e));
            continue;
        }
        for pass in 0..2 {
            let res = run_one(&sc, Policy::Random, 1 + pass, 40);
            if !res.violations.is_empty() {
                // a lone thread cannot violate C20: whatever this is, it is a seam / harness matter
                problems.push(format!("depth {} pass {}: lone thread reports {}: {}", d, pass, res.violations[0].class, res.violations[0].detail));
            }
            for (tb, name) in [(0usize, "LAYERS"), (1usize, "CSTS_C2V")] {
                let c = res.stats.constructed[tb][d as usize];
                if c != 1 {
                    problems.push(format!("depth {} pass {}: {}[{}] constructed {} time(s) by a lone first user (state survives verif_reset, or the constructor hook is bypassed)", d, pass, name, d, c));
                }
                let wrote = res.events.iter().any(|e| e.table as usize == tb && e.slot == d && e.kind == Kind::Write);
                let read = res.events.iter().any(|e| e.table as usize == tb && e.slot == d && e.kind == Kind::Read);
                if !wrote || !read {
                    problems.push(format!("depth {} pass {}: no {} of the hooked {}[{}] slot although it was first-used (the tables no longer live in the hooked statics)", d, pass, if !wrote { "write" } else { "read" }, name, d));
                }
            }
        }
    }
    // Replay stability: the same (scenario, schedule seed) must give the same execution whatever
    // ran before it in this process.  If it does not, the code under test keeps state outside the
    // two hooked tables that `verif_reset()` cannot reset (a global cache, a ready mask, ...):
    // engine B's executions would depend on the process history and cannot be trusted.
    if problems.is_empty() {
        let mut list: Vec<Arc<Scenario>> = Vec::new();
        for i in 0..6u64 {
            list.push(Arc::new(generate(derive_seed(0x5eac, ENGINE_TAG, i), Profile::Cover)));
            list.push(Arc::new(generate(derive_seed(0x5eac, ENGINE_TAG, 100 + i), Profile::Full)));
        }
        let mut first: Vec<(u64, u64, usize, [[u32; N_SLOTS]; 2], usize)> = Vec::new();
        // order: X0 X0 X1 X1 ... (a scenario right after itself sees whatever it left behind for
        // its own depths), then X0 X1 ... again (sees what the others left behind)
        let mut order: Vec<(usize, usize)> = Vec::new();
        for i in 0..list.len() { order.push((0, i)); order.push((1, i)); }
        for i in 0..list.len() { order.push((1, i)); }
        let mut skipped = vec![false; list.len()];
        for (round, i) in order {
            {
                let sc = &list[i];
                if skipped[i] || reference_pass(sc).is_err() {
                    skipped[i] = true;
                    if round == 0 { first.push((0, 0, 0, [[0; N_SLOTS]; 2], 0)); }
                    continue;
                }
                let res = run_one(sc, Policy::Sticky { stay: 10 }, 77 + i as u64, 40);
                let rec = (res.stats.signature, res.stats.outcome_digest, res.stats.steps, res.stats.constructed, res.violations.len());
                if round == 0 {
                    first.push(rec);
                } else if i < first.len() && first[i] != rec {
                    problems.push(format!("scenario {} does not replay identically within one process (first: {} steps / {} violations, again: {} steps / {} violations): state outside the hooked tables survives verif_reset", i, first[i].2, first[i].4, rec.2, rec.4));
                    break;
                }
            }
        }
    }
    if problems.is_empty() {
        println!("{{\"ok\":true}}");
        0
    } else {
        println!("{{\"ok\":false,\"why\":\"{}\"}}", json_escape(&problems[..problems.len().min(3)].join("; ")));
        4
    }
}

fn cmd_merge(a: &[String]) -> i32 {
    let mut all: Vec<u64> = Vec::new();
    let mut non: Vec<u64> = Vec::new();
    for f in a {
        let b = match std::fs::read(f) { Ok(b) => b, Err(e) => { eprintln!("HARNESS-ERROR: cannot read {}: {}", f, e); return 2; } };
        if b.len() < 16 { eprintln!("HARNESS-ERROR: short sigfile {}", f); return 2; }
        let rd = |i: usize| u64::from_le_bytes(b[i * 8..i * 8 + 8].try_into().unwrap());
        let (na, nn) = (rd(0) as usize, rd(1) as usize);
        if b.len() != 8 * (2 + na + nn) { eprintln!("HARNESS-ERROR: bad sigfile {}", f); return 2; }
        for i in 0..na { all.push(rd(2 + i)); }
        for i in 0..nn { non.push(rd(2 + na + i)); }
    }
    all.sort_unstable();
    all.dedup();
    non.sort_unstable();
    non.dedup();
    println!("{{\"distinct_signatures\":{},\"distinct_nontrivial\":{}}}", all.len(), non.len());
    0
}

fn main() {
    // shuttle installs (once) a panic hook that prints the schedule on every panic, even caught
    // ones; let it do so in a warm-up run, then replace it: expected panics (crashing callers,
    // shuttle's deadlock report) must not spam stderr -- we record schedules ourselves.
    {
        let mut cfg = shuttle::Config::new();
        cfg.failure_persistence = shuttle::FailurePersistence::None;
        shuttle::Runner::new(SimScheduler { remaining: 1 }, cfg).run(|| {});
    }
    std::panic::set_hook(Box::new(|_| {}));
    let args: Vec<String> = std::env::args().collect();
    if args.len() < 2 {
        eprintln!("HARNESS-ERROR: usage: simb <batch|replay|search|merge> ...");
        std::process::exit(2);
    }
    let code = match args[1].as_str() {
        "batch" => cmd_batch(&args[2..]),
        "replay" => cmd_replay(&args[2..]),
        "search" => cmd_search(&args[2..]),
        "merge" => cmd_merge(&args[2..]),
        "seamcheck" => cmd_seamcheck(),
        "refonly" => cmd_refonly(&args[2..]),
        "rawrun" => cmd_rawrun(&args[2..]),
        _ => {
            eprintln!("HARNESS-ERROR: unknown sub-command");
            2
        }
    };
    std::process::exit(code);
}
