#!/usr/bin/env python3
"""Sensitivity runner: apply each diff to /repo, run the C20 check, undo it.

  tools/run_mutants.py [--tier quick] [--tests] <diff>...

A `M*`/seeded patch must end in exit 1 with a VIOLATION line; an `R*` patch (property-preserving
refactor) must end in exit 0.  /repo is restored (git checkout -- .) after every patch, also on
error.  With --tests the repository's own test-suite is run on the patched tree first.
"""
import json, os, re, subprocess, sys, time

REPO = "/repo"
VERIF = os.path.dirname(os.path.dirname(os.path.abspath(__file__)))


def sh(cmd, **kw):
    return subprocess.run(cmd, stdout=subprocess.PIPE, stderr=subprocess.STDOUT, text=True, **kw)


def main():
    a = sys.argv[1:]
    tier = "quick"
    tests = False
    if "--tier" in a:
        i = a.index("--tier"); tier = a[i + 1]; del a[i:i + 2]
    if "--tests" in a:
        a.remove("--tests"); tests = True
    rows = []
    # the check rewrites evidence/C20.json on every run: what it writes while /repo is patched must
    # never end up committed as evidence -> keep the file as it was before this tool started
    ev_path = os.path.join(VERIF, "evidence", "C20.json")
    ev_saved = open(ev_path).read() if os.path.exists(ev_path) else None
    try:
        return run_all(a, tier, tests, rows)
    finally:
        if ev_saved is not None:
            with open(ev_path, "w") as f:
                f.write(ev_saved)


def run_all(a, tier, tests, rows):
    for diff in a:
        name = os.path.basename(os.path.dirname(diff)) if os.path.basename(diff) == "patch.diff" else os.path.basename(diff)[:-5]
        st = sh(["git", "-C", REPO, "status", "--porcelain", "--untracked-files=no"]).stdout.strip()
        if st:
            print("refusing: /repo has local changes:\n" + st); return 2
        r = sh(["git", "-C", REPO, "apply", os.path.abspath(diff)])
        if r.returncode != 0:
            rows.append((name, "APPLY-FAILED", "", 0)); print(name, "apply failed:", r.stdout); continue
        try:
            tres = ""
            if tests:
                t = sh(["cargo", "test", "--workspace", "--no-fail-fast", "--offline"], cwd=REPO, env=dict(os.environ, CARGO_NET_OFFLINE="true"))
                ok = re.findall(r"test result: (\w+)\. (\d+) passed; (\d+) failed", t.stdout)
                tres = "tests:" + ",".join("%s/%s/%s" % x for x in ok) if t.returncode == 0 else "TESTS-FAIL"
            t0 = time.time()
            c = sh([os.path.join(VERIF, "check"), "C20", "--tier", tier], cwd=VERIF)
            dt = time.time() - t0
            viol = [l for l in c.stdout.splitlines() if l.startswith("violation:") or l.startswith("VIOLATION") or l.startswith("HARNESS-ERROR") or l.startswith("engine B inconclusive") or l.startswith("note:")]
            rows.append((name, "exit=%d" % c.returncode, tres + " " + " | ".join(v[:160] for v in viol[:4]), dt))
            print("%-34s exit=%d %5.0fs %s" % (name, c.returncode, dt, tres)); [print("     ", v[:220]) for v in viol[:6]]
            sys.stdout.flush()
        finally:
            sh(["git", "-C", REPO, "checkout", "--", "."])
    print("\nSUMMARY")
    bad = 0
    for name, res, detail, dt in rows:
        want = "exit=0" if name.startswith("R") else "exit=1"
        ok = res == want
        bad += 0 if ok else 1
        print("%-34s %-8s want %-7s %s" % (name, res, want, "OK" if ok else "<<<<<< UNEXPECTED"))
    return 1 if bad else 0


if __name__ == "__main__":
    sys.exit(main())
