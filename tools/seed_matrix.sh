#!/bin/bash
# tools/seed_matrix.sh "<seeds>" <patch>... : detection robustness of the quick check across VERIF_SEED values
seeds="$1"; shift
# keep evidence/C20.json as it was: runs on a patched /repo must never be committed as evidence
cp /verif/evidence/C20.json /tmp/C20.evidence.saved 2>/dev/null
trap 'cp /tmp/C20.evidence.saved /verif/evidence/C20.json 2>/dev/null' EXIT
for p in "$@"; do
  name=$(basename $(dirname $p))
  git -C /repo apply "$(realpath $p)" || { echo "$name APPLY-FAILED"; continue; }
  for s in $seeds; do
    t0=$(date +%s)
    out=$(VERIF_SEED=$s /verif/check C20 --tier quick 2>&1); rc=$?
    cls=$(echo "$out" | grep "^violation:" | sed -E 's/^violation: \[([^]]*)\] ([^:]*):.*/\1:\2/' | sort -u | tr '\n' ' ')
    echo "$name seed=$s exit=$rc $(( $(date +%s) - t0 ))s $cls"
  done
  git -C /repo checkout -- .
done
